package plan

import "verif/sim/ref"

// Input describes a byte string. It is regenerated from (Class, Len, Seed) or
// given literally (small inputs after shrinking).
type Input struct {
	Class string `json:"class"` // text random mixed zeros repeat lit
	Len   int    `json:"len"`
	Seed  uint64 `json:"seed,omitempty"`
	Lit   []byte `json:"lit,omitempty"`
	// ZeroSumEvery > 0: patch the last word of every chunk of that many bytes
	// (and of the final partial chunk when it is a multiple of four) so that
	// its XXH32 is 0; ZeroSumAll patches the whole input's hash to 0.
	ZeroSumEvery int  `json:"zero_sum_every,omitempty"`
	ZeroSumAll   bool `json:"zero_sum_all,omitempty"`
}

var words = []string{"the", "quick", "brown", "fox", "jumps", "over", "lazy", "dog", "lorem", "ipsum",
	"dolor", "sit", "amet", "compress", "block", "frame", "stream", "checksum", "window", "offset",
	"0123456789", "aaaaaaaaaaaaaaaa", "\n", ", ", ". "}

// Bytes materialises the input. Deterministic.
func (in Input) Bytes() []byte {
	if in.Class == "lit" {
		return append([]byte(nil), in.Lit...)
	}
	b := make([]byte, in.Len)
	r := NewRand(Mix(in.Seed, HashString(in.Class)))
	switch in.Class {
	case "zeros":
	case "random":
		fillRandom(b, r)
	case "text":
		fillText(b, r)
	case "randtail":
		// incompressible, except that somewhere in the last 64 KiB of every
		// 8 MiB (and of the whole input) a short stretch repeats bytes from a
		// little earlier: a compressor finds nothing but one late match
		fillRandom(b, r)
		tail := func(end int) {
			if end < 4096 {
				return
			}
			if r.Bool() {
				// a short repeat of earlier bytes
				at := end - 20 - r.Intn(30000)
				if at < 2048 {
					at = 2048
				}
				d := 1 + r.Intn(2000)
				n := 8 + r.Intn(200)
				for i := at; i < at+n && i < end; i++ {
					b[i] = b[i-d]
				}
				return
			}
			// a run of one byte value over most of the last 30000 bytes: a
			// compressor that samples sparsely after a long stretch without
			// matches still lands in it
			lo := end - 30000 + r.Intn(2000)
			hi := end - 64 - r.Intn(2000)
			if lo < 0 {
				lo = 0
			}
			for i := lo; i < hi; i++ {
				b[i] = 0x41
			}
		}
		for e := 8 << 20; e <= len(b); e += 8 << 20 {
			tail(e)
		}
		tail(len(b))
	case "repeat":
		// long-distance repeats: segments copied from far back
		fillRepeat(b, r)
	default: // mixed
		for p := 0; p < len(b); {
			n := r.Range(1, 40000)
			if p+n > len(b) {
				n = len(b) - p
			}
			switch r.Intn(4) {
			case 0:
				fillRandom(b[p:p+n], r)
			case 1:
				fillText(b[p:p+n], r)
			case 2:
				c := byte(r.Intn(256))
				for i := p; i < p+n; i++ {
					b[i] = c
				}
			default:
				if p > 0 {
					d := r.Range(1, p)
					for i := p; i < p+n; i++ {
						b[i] = b[i-d]
					}
				} else {
					fillText(b[p:p+n], r)
				}
			}
			p += n
		}
	}
	if in.ZeroSumEvery >= 4 {
		for p := 0; p < len(b); p += in.ZeroSumEvery {
			e := p + in.ZeroSumEvery
			if e > len(b) {
				e = len(b)
			}
			if (e-p)%4 == 0 && e-p >= 4 {
				ref.ForceSum(b[p:e], 0)
			}
		}
	}
	if in.ZeroSumAll && len(b) >= 4 && len(b)%4 == 0 {
		ref.ForceSum(b, 0)
	}
	return b
}

func fillRandom(b []byte, r *Rand) {
	i := 0
	for ; i+8 <= len(b); i += 8 {
		x := r.Uint64()
		b[i], b[i+1], b[i+2], b[i+3] = byte(x), byte(x>>8), byte(x>>16), byte(x>>24)
		b[i+4], b[i+5], b[i+6], b[i+7] = byte(x>>32), byte(x>>40), byte(x>>48), byte(x>>56)
	}
	for ; i < len(b); i++ {
		b[i] = byte(r.Uint64())
	}
}

func fillText(b []byte, r *Rand) {
	for p := 0; p < len(b); {
		w := words[r.Intn(len(words))]
		p += copy(b[p:], w)
		if p < len(b) {
			b[p] = ' '
			p++
		}
	}
}

func fillRepeat(b []byte, r *Rand) {
	for p := 0; p < len(b); {
		n := r.Range(8, 3000)
		if p+n > len(b) {
			n = len(b) - p
		}
		if p > 70000 && r.Chance(2, 3) {
			d := r.PickInt(65535, 65534, 65536, 65537, 1, 2, 3, 4, 7, 8, 15, 16, 17, 18, 1000, 32768, r.Range(1, 65535))
			if d > p {
				d = p
			}
			for i := p; i < p+n; i++ {
				b[i] = b[i-d]
			}
		} else {
			fillRandom(b[p:p+n], r)
		}
		p += n
	}
}
