package plan

// C17: lifecycle of Writer and Reader against a reference model.

// wAlphabet is the Writer call alphabet with one representative argument per
// class. bs is the block size in bytes.
func wAlphabet(bs int, optsA, optsB WOpts) []WOp {
	bad := optsA
	bad.BS = 9 // invalid block size
	return []WOp{
		{Op: "apply", Opts: &optsB},
		{Op: "apply", Opts: &bad},
		{Op: "write", N: 0},
		{Op: "write", N: 100},
		{Op: "write", N: bs},
		{Op: "write", N: bs + 1000},
		{Op: "readfrom", N: 300, Frag: &Frag{Policy: "small", Seed: 5}},
		{Op: "readfrom", N: 2*bs + 5, Frag: &Frag{Policy: "rand", Seed: 7}, Bufio: 4096},
		{Op: "flush"},
		{Op: "close"},
		{Op: "reset"},
		{Op: "apply", Opts: &optsA},
	}
}

const wAlphaN = 12
const rAlphaN = 10

func pow(b, e int) int {
	r := 1
	for i := 0; i < e; i++ {
		r *= b
	}
	return r
}

func (g *gen) lifecycle(p *Plan) {
	L := 3
	if g.thorough() {
		L = 4
	}
	nW := 2 * pow(wAlphaN, L)
	nR := 2 * pow(rAlphaN, L)
	i := p.Index
	switch {
	case i < nW:
		g.lifecycleW(p, i%pow(wAlphaN, L), L, 1+i/pow(wAlphaN, L))
	case i < nW+nR:
		i -= nW
		g.lifecycleR(p, i%pow(rAlphaN, L), L, 1+i/pow(rAlphaN, L))
	default:
		if g.r.Chance(55, 100) {
			g.lifecycleW(p, -1, g.r.Range(4, 12), g.r.PickInt(1, 2, 4, 0))
		} else {
			g.lifecycleR(p, -1, g.r.Range(4, 12), g.r.PickInt(1, 2, 4, 0))
		}
	}
}

// lifecycleW builds a Writer script: code >= 0 selects the code-th sequence of
// length L over the alphabet (exhaustive part), code < 0 a random one.
func (g *gen) lifecycleW(p *Plan, code, L, conc int) {
	p.Kind = "lifecycleW"
	optsA := WOpts{BS: 4, CSum: true, Conc: conc}
	optsB := WOpts{BS: 4, BSum: true, CSum: false, Size: 12345, Level: 1, Conc: conc}
	if code < 0 {
		optsA = g.wopts(conc)
		optsA.BS = 4
		if optsA.Level > 3 {
			optsA.Level = 1
		}
		optsA.Size = 0
		optsB = g.wopts(conc)
		optsB.BS = g.r.PickInt(4, 4, 5)
		if optsB.Level > 3 {
			optsB.Level = 2
		}
		if optsB.Size != 0 {
			optsB.Size = int64(g.r.Range(1, 1<<20))
		}
		optsB.HYield = 0
	}
	bs := bsBytes(4)
	alpha := wAlphabet(bs, optsA, optsB)
	w := WScript{Opts: optsA, In: 0}
	nsinks := 1
	total := 0
	for k := 0; k < L; k++ {
		var op WOp
		if code >= 0 {
			op = alpha[code%wAlphaN]
			code /= wAlphaN
		} else {
			op = alpha[g.r.Pick(6, 2, 4, 14, 10, 8, 6, 6, 10, 14, 12, 4)]
			if op.Op == "write" && op.N > 0 && g.r.Chance(1, 2) {
				op.N = g.r.PickInt(1, 7, 1000, bs-1, bs, bs+1, 2*bs+3)
			}
			if op.Op == "readfrom" {
				op.N = g.r.PickInt(0, 1, 300, bs, bs+1, 2*bs+5)
				op.Frag = ptrFrag(g.fragFor(op.N))
				op.Bufio = g.r.PickInt(0, 0, 16, 4096)
			}
		}
		if op.Op == "reset" {
			op.Sink = nsinks
			nsinks++
		}
		if op.Op == "write" || op.Op == "readfrom" {
			total += op.N
		}
		w.Ops = append(w.Ops, op)
	}
	if last := w.Ops[len(w.Ops)-1].Op; last != "close" {
		w.Ops = append(w.Ops, WOp{Op: "close"})
	}
	for i := 0; i < nsinks; i++ {
		w.Sinks = append(w.Sinks, SinkPlan{})
	}
	p.Inputs = []Input{{Class: "text", Len: total + 16, Seed: g.r.Uint64()}}
	if code < 0 {
		p.Inputs[0] = g.input(total + 16)
	}
	p.Writers = []WScript{w}
	p.Phases = [][]string{{"W0"}}
	// Reset equivalence: the same script with the object replaced by a new
	// one (same options) at the last Reset. Only when every Apply of the
	// script is legal (first call of a frame), so "same options" is defined.
	lastReset := -1
	legal := true
	fresh := true
	for k, op := range w.Ops {
		switch op.Op {
		case "reset":
			lastReset = k
			fresh = true
		case "apply":
			if !fresh || op.Opts.BS == 9 {
				legal = false
			}
		case "close":
			fresh = false
		default:
			fresh = false
		}
	}
	if lastReset >= 0 && legal {
		w1 := WScript{Opts: w.Opts, In: 0, Sinks: w.Sinks}
		w1.Ops = append([]WOp(nil), w.Ops...)
		w1.Ops[lastReset].Op = "renew"
		p.Writers = append(p.Writers, w1)
		p.Phases = append(p.Phases, []string{"W1"})
		p.Equiv = []Equiv{{A: 0, FromA: lastReset + 1, SinkA: w.Ops[lastReset].Sink, B: 1, FromB: lastReset + 1, SinkB: w.Ops[lastReset].Sink}}
	}
	if conc <= 0 {
		p.Procs = g.r.PickInt(2, 4)
	}
}

func (g *gen) lifecycleR(p *Plan, code, L, conc int) {
	p.Kind = "lifecycleR"
	bs := bsBytes(4)
	n0 := 300
	n1 := bs + 700
	// source 0/2: every optional field present; source 1: a legacy frame (no
	// field at all), so that anything a Reset leaves behind shows
	o0 := WOpts{BS: 4, BSum: true, CSum: true, Size: -1, Conc: 1}
	o1 := WOpts{BS: 4, Legacy: true, Conc: 1}
	if code < 0 {
		n0 = g.r.PickInt(0, 1, 300, bs, bs+1, 2*bs+9)
		n1 = g.r.PickInt(0, 1, 300, bs, bs+700)
		o0 = g.wopts(1)
		o0.BS, o0.Level, o0.HYield = 4, 0, 0
		o1 = g.wopts(1)
		o1.BS, o1.Level, o1.HYield = 4, 0, 0
		o1.Legacy = g.r.Chance(1, 3)
	}
	p.Inputs = []Input{{Class: "text", Len: n0, Seed: g.r.Uint64()}, {Class: "mixed", Len: n1, Seed: g.r.Uint64()}}
	tail := []byte{1, 2, 3, 4, 5, 6, 7, 8, 9, 10, 11, 12}
	srcs := []Source{
		{Stored: Stored{Base: "lz4w", Opts: &o0, In: 0, Tail: tail}, Frag: Frag{Policy: "full"}},
		{Stored: Stored{Base: "lz4w", Opts: &o1, In: 1}, Frag: Frag{Policy: "rand", Seed: 3}, EOFWithData: true},
		{Stored: Stored{Base: "lz4w", Opts: &o0, In: 0, Tail: tail}, Frag: Frag{Policy: "small", Seed: 9}},
	}
	if code < 0 {
		for i := range srcs {
			srcs[i].Frag = g.fragFor(2 * bs)
			srcs[i].EOFWithData = g.r.Chance(1, 3)
		}
		if g.r.Chance(1, 2) {
			srcs[0].Stored.Tail = nil
		}
	}
	alpha := []ROp{
		{Op: "read", N: 0},
		{Op: "read", N: 1},
		{Op: "read", N: 100},
		{Op: "read", N: bs + 10},
		{Op: "drain", Sizes: []int{4096}},
		{Op: "writeto"},
		{Op: "size"},
		{Op: "reset", Src: 1},
		{Op: "reset", Src: 2},
		{Op: "apply", Conc: 2},
	}
	r := RScript{Conc: conc, Srcs: srcs}
	for k := 0; k < L; k++ {
		var op ROp
		if code >= 0 {
			op = alpha[code%rAlphaN]
			code /= rAlphaN
		} else {
			op = alpha[g.r.Pick(4, 8, 14, 10, 14, 12, 10, 10, 10, 4)]
			if op.Op == "read" && op.N > 1 && g.r.Chance(1, 2) {
				op.N = g.r.PickInt(7, 299, 300, 301, bs-1, bs, bs+1, 3*bs)
			}
			if op.Op == "drain" {
				op.Sizes = g.readSizes(bs, n0)
			}
			if op.Op == "reset" {
				op.Src = g.r.Intn(3)
			}
		}
		r.Ops = append(r.Ops, op)
	}
	// finish with reads that must report the end (or the failure) consistently
	r.Ops = append(r.Ops, ROp{Op: "drain", Sizes: []int{1000}}, ROp{Op: "read", N: 10}, ROp{Op: "size"})
	p.Readers = []RScript{r}
	p.Phases = [][]string{{"R0"}}
	if conc <= 0 {
		p.Procs = g.r.PickInt(2, 4)
	}
}
