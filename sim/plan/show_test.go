package plan

import (
	"fmt"
	"os"
	"strconv"
	"testing"
)

func TestShowPlan(t *testing.T) {
	prop := os.Getenv("SHOW_PROP")
	if prop == "" {
		t.Skip()
	}
	seed, _ := strconv.ParseUint(os.Getenv("SHOW_SEED"), 10, 64)
	idx, _ := strconv.Atoi(os.Getenv("SHOW_INDEX"))
	p := Gen(prop, "quick", seed, idx)
	fmt.Println(string(p.JSON()))
}
