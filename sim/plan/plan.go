package plan

import (
	"encoding/json"
	"fmt"
)

// Plan is the complete, pure-data description of one simulated run. Executing
// a plan is a deterministic function of the plan and the code under test.
type Plan struct {
	Prop  string `json:"prop"`
	Kind  string `json:"kind"` // scenario kind (selects the oracle)
	Seed  uint64 `json:"seed"` // run seed this plan was generated from (information)
	Index int    `json:"index"`
	Note  string `json:"note,omitempty"`

	Sched Sched  `json:"sched"`
	Pool  string `json:"pool"` // lifo fifo random fresh passthrough
	Procs int    `json:"procs,omitempty"`

	Inputs  []Input   `json:"inputs,omitempty"`
	Writers []WScript `json:"writers,omitempty"`
	Readers []RScript `json:"readers,omitempty"`
	CRs     []CScript `json:"crs,omitempty"`
	Blocks  []BScript `json:"blocks,omitempty"`
	// Phases lists, per phase, the clients ("W0", "R1", "C0", "B0") that run
	// concurrently; a phase starts when the previous one is quiescent.
	Phases [][]string `json:"phases"`

	// Enum asks the executor to enumerate a fault dimension over this base
	// plan (fault_enumeration); a replay file has the chosen point inlined and
	// Enum cleared.
	Enum *Enum `json:"enum,omitempty"`

	// Same lists groups of writer indices whose (first) sinks must be
	// byte-identical (C14); SameR groups of readers whose observable result
	// (delivered bytes, error class) must be identical (C15 fragmentation).
	Same  [][]int `json:"same,omitempty"`
	SameR [][]int `json:"same_r,omitempty"`
	// Equiv lists pairs of writer op ranges that must behave identically
	// (Reset equivalence, C17).
	Equiv []Equiv `json:"equiv,omitempty"`
	// Twin asks the executor to also run the fault-free twin of this plan
	// (all injected faults removed) and to check that what reached each
	// writer sink before its first fault is a byte prefix of the twin's sink.
	Twin bool `json:"twin,omitempty"`

	// Expect is the violation signature a replay file must reproduce.
	Expect string `json:"expect,omitempty"`
	// Race records that the violation needs the race-detector build.
	Race bool `json:"race,omitempty"`
}

// Sched selects the scheduling policy of a run.
type Sched struct {
	Policy string `json:"policy"` // random pct rtb starve rr explicit
	Seed   uint64 `json:"seed,omitempty"`
	// PCT: number of priority change points; Starve: kind substring.
	Depth  int    `json:"depth,omitempty"`
	Starve string `json:"starve,omitempty"`
	// Explicit schedule: goroutine ids to run at each step (lowest parked id
	// when the wanted one is not parked or beyond the end).
	Choices  []int `json:"choices,omitempty"`
	MaxSteps int   `json:"max_steps,omitempty"`
}

// Enum describes an enumerated fault dimension.
type Enum struct {
	Kind string `json:"kind"` // sinkfail srcfail cuts wtsinkfail
	// Target client, e.g. "W0" or "R0".
	Target string `json:"target"`
	// Max number of points beyond which the stated sampling rule applies.
	Full int    `json:"full,omitempty"`
	Seed uint64 `json:"seed,omitempty"`
}

// Equiv: ops [FromA..] of writer A on sink SinkA behave like ops [FromB..] of
// writer B on sink SinkB.
type Equiv struct {
	A, FromA, SinkA int
	B, FromB, SinkB int
}

// WOpts are Writer (and CompressingReader) options.
type WOpts struct {
	BS      int   `json:"bs"`             // block size index 4..7 (0: leave default)
	BSum    bool  `json:"bsum,omitempty"` // block checksum
	CSum    bool  `json:"csum"`           // content checksum
	Size    int64 `json:"size,omitempty"` // 0 none, -1 = length of the input, >0 literal
	Level   int   `json:"level,omitempty"`
	Conc    int   `json:"conc"` // 1 sequential; 0 or <0: GOMAXPROCS (Procs)
	Legacy  bool  `json:"legacy,omitempty"`
	HYield  int   `json:"hyield,omitempty"`  // yields inside the on-block-done handler
	Default bool  `json:"default,omitempty"` // apply nothing (library defaults)
}

// WOp is one call on a Writer.
type WOp struct {
	Op   string `json:"op"` // write flush close reset readfrom apply
	N    int    `json:"n,omitempty"`
	Frag *Frag  `json:"frag,omitempty"` // readfrom source behaviour
	// Bufio > 0: the ReadFrom source is a bufio.Reader of that size (which
	// also implements io.WriterTo) wrapped around the simulated source.
	Bufio int `json:"bufio,omitempty"`
	// SrcFaults: faults of the ReadFrom source (C15)
	SrcFaults []RFault `json:"src_faults,omitempty"`
	Opts      *WOpts   `json:"opts,omitempty"` // apply
	Sink      int      `json:"sink,omitempty"` // reset: index of the sink to switch to
	// Hist: a write of the first N input bytes that does not advance the input
	// position: earlier history of the Writer object (C14), abandoned or
	// closed before the Reset that starts the judged stream.
	Hist bool `json:"hist,omitempty"`
}

// WFault is a fault on a sink.
type WFault struct {
	Call    int    `json:"call"` // 1-based call index on this sink
	Kind    string `json:"kind"` // fail short stall
	M       int    `json:"m,omitempty"`
	Forever bool   `json:"forever,omitempty"`
	Stall   int    `json:"stall,omitempty"`
}

type SinkPlan struct {
	Faults []WFault `json:"faults,omitempty"`
	Yields int      `json:"yields,omitempty"` // yields inside every call
	// Grow: the sink also has a Grow(int) method (like *bytes.Buffer); what is
	// asked of it is recorded.
	Grow bool `json:"grow,omitempty"`
}

// WScript is a Writer client.
type WScript struct {
	Opts  WOpts      `json:"opts"`
	In    int        `json:"in"`
	Ops   []WOp      `json:"ops"`
	Sinks []SinkPlan `json:"sinks"`
}

// Frag is the read fragmentation of a source.
type Frag struct {
	Policy string `json:"policy"` // full one small rand bound
	Seed   uint64 `json:"seed,omitempty"`
}

// RFault is a fault on a source.
type RFault struct {
	Call  int    `json:"call"`
	Kind  string `json:"kind"` // err0 errn zero stall
	Stall int    `json:"stall,omitempty"`
}

// Mutation edits stored bytes. Offsets are symbolic (field kind, block, byte
// within field) and resolved against the reference field map at execution.
type Mutation struct {
	Kind  string `json:"kind"` // flip set delblock dupblock swapblocks insblock trunc append
	Field string `json:"field,omitempty"`
	Block int    `json:"block,omitempty"`
	Byte  int    `json:"byte,omitempty"`
	Bit   int    `json:"bit,omitempty"`
	Val   int    `json:"val,omitempty"`
	B2    int    `json:"b2,omitempty"`
	Data  []byte `json:"data,omitempty"`
}

// EncBlockPlan mirrors ref.EncBlock.
type EncBlockPlan struct {
	Len       int  `json:"len"`
	Raw       bool `json:"raw,omitempty"`
	NoMatches bool `json:"nomatch,omitempty"`
	MinMatch  int  `json:"minmatch,omitempty"`
}

// Stored describes the bytes on the medium a Reader reads.
type Stored struct {
	// Base: "sink" (sink of a writer client of this plan: Writer, SinkIdx),
	// "lz4w" (a frame made beforehand by a sequential library Writer: Opts,
	// In, Chunk), "refenc" (reference encoder: Enc, In), "raw" (input bytes as
	// they are), "hostile" (grammar-built hostile stream: Hostile).
	Base    string     `json:"base"`
	Writer  int        `json:"writer,omitempty"`
	SinkIdx int        `json:"sink_idx,omitempty"`
	Opts    *WOpts     `json:"opts,omitempty"`
	In      int        `json:"in,omitempty"`
	Chunk   int        `json:"chunk,omitempty"`
	Enc     *EncPlan   `json:"enc,omitempty"`
	Hostile *Hostile   `json:"hostile,omitempty"`
	Prefix  []SkipPlan `json:"prefix,omitempty"`
	Mut     []Mutation `json:"mut,omitempty"`
	Cut     int        `json:"cut,omitempty"`   // >0: keep only that many bytes
	Tail    []byte     `json:"tail,omitempty"`  // bytes appended after the frame
	Tail2   *Stored    `json:"tail2,omitempty"` // another stored stream appended
}

type SkipPlan struct {
	Nibble int `json:"nibble"`
	Len    int `json:"len"`
}

type EncPlan struct {
	BS        int            `json:"bs"`
	Dependent bool           `json:"dep,omitempty"`
	BSum      bool           `json:"bsum,omitempty"`
	CSum      bool           `json:"csum,omitempty"`
	HasSize   bool           `json:"has_size,omitempty"`
	Legacy    bool           `json:"legacy,omitempty"`
	Blocks    []EncBlockPlan `json:"blocks"`
}

// Hostile is a grammar-built hostile stream: a list of items rendered in order.
type Hostile struct {
	Items []HItem `json:"items"`
}

// HItem kinds: "word" (Val as LE32, Rep times), "bytes" (Data), "header"
// (Val = FLG | BD<<8, Size optional, good checksum unless Val2 != 0 which is
// xored into the checksum byte), "rawblock" (Len bytes from input), "fill"
// (Len pseudo-random bytes from Seed).
type HItem struct {
	Kind string `json:"kind"`
	Val  uint32 `json:"val,omitempty"`
	Val2 uint32 `json:"val2,omitempty"`
	Size uint64 `json:"size,omitempty"`
	Has  bool   `json:"has,omitempty"`
	Rep  int    `json:"rep,omitempty"`
	Len  int    `json:"len,omitempty"`
	Seed uint64 `json:"seed,omitempty"`
	Data []byte `json:"data,omitempty"`
}

// Source is a simulated io.Reader.
type Source struct {
	Stored      Stored   `json:"stored"`
	Frag        Frag     `json:"frag"`
	Faults      []RFault `json:"faults,omitempty"`
	EOFWithData bool     `json:"eof_with_data,omitempty"`
	Yields      int      `json:"yields,omitempty"`
	// Bufio > 0: the Reader is given a bufio.Reader of that buffer size wrapped
	// around the simulated source (a common source type with extra methods).
	Bufio int `json:"bufio,omitempty"`
	// Seeker: the source handed to the Reader also implements io.Seeker
	// (like *bytes.Reader and *os.File).
	Seeker bool `json:"seeker,omitempty"`
}

// ROp is one call on a Reader.
type ROp struct {
	Op    string    `json:"op"` // read drain writeto size reset apply
	N     int       `json:"n,omitempty"`
	Sizes []int     `json:"sizes,omitempty"` // drain: cycle of buffer sizes
	Sink  *SinkPlan `json:"sink,omitempty"`  // writeto
	Src   int       `json:"src,omitempty"`   // reset: source index
	Conc  int       `json:"conc,omitempty"`  // apply
	Max   int       `json:"max,omitempty"`   // drain: stop after that many calls (0: until error/EOF)
}

// RScript is a Reader client.
type RScript struct {
	Conc   int      `json:"conc"`
	HYield int      `json:"hyield,omitempty"`
	Srcs   []Source `json:"srcs"`
	Ops    []ROp    `json:"ops"`
}

// CScript is a CompressingReader client.
type CScript struct {
	Opts        WOpts    `json:"opts"`
	In          int      `json:"in"`
	Frag        Frag     `json:"frag"`
	Faults      []RFault `json:"faults,omitempty"`
	EOFWithData bool     `json:"eof_with_data,omitempty"`
	Sizes       []int    `json:"sizes"` // cycle of Read buffer sizes
	// Adaptive: choose the next size relative to what the previous call
	// returned (a full buffer means overflow is pending): index offsets.
	Adaptive bool `json:"adaptive,omitempty"`
	// Exact: derive the buffer sizes from the frame structure (see gen).
	Exact     bool   `json:"exact,omitempty"`
	ExactSeed uint64 `json:"exact_seed,omitempty"`
	MaxCalls  int    `json:"max_calls,omitempty"`
	// Next: after this stream ended (io.EOF or an error) the same object is
	// Reset onto a new source, options are applied and a second stream is read.
	Next *CScript `json:"next,omitempty"`
}

// BCall is one package-level block compression call (C14).
type BCall struct {
	In    int  `json:"in"`
	Off   int  `json:"off"`
	Len   int  `json:"len"`
	HC    bool `json:"hc,omitempty"`
	Depth int  `json:"depth,omitempty"`
	Dst   int  `json:"dst"` // destination length; 0 = CompressBlockBound
	// Obj: 0 = package-level function (pooled compressor); k >= 1 = the
	// client's k-th own Compressor / CompressorHC object, reused across calls.
	Obj int `json:"obj,omitempty"`
}

type BScript struct {
	Calls []BCall `json:"calls"`
}

func (p *Plan) JSON() []byte {
	b, err := json.Marshal(p)
	if err != nil {
		panic(err)
	}
	return b
}

func (p *Plan) Clone() *Plan {
	var q Plan
	if err := json.Unmarshal(p.JSON(), &q); err != nil {
		panic(err)
	}
	return &q
}

func Parse(b []byte) (*Plan, error) {
	var q Plan
	if err := json.Unmarshal(b, &q); err != nil {
		return nil, fmt.Errorf("plan: %w", err)
	}
	return &q, nil
}

// Hash identifies a plan (schedule seed included).
func (p *Plan) Hash() uint64 { return HashString(string(p.JSON())) }
