package plan

func (g *gen) iofaults(p *Plan)  { panic("todo") }
func (g *gen) cuts(p *Plan)      { panic("todo") }
func (g *gen) corrupt(p *Plan)   { panic("todo") }
func (g *gen) hostile(p *Plan)   { panic("todo") }
func (g *gen) dependent(p *Plan) { panic("todo") }
func (g *gen) lifecycle(p *Plan) { panic("todo") }
func (g *gen) creader(p *Plan)   { panic("todo") }
