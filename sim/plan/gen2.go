package plan

import "fmt"

// storedFrame draws a valid stored frame description (library Writer or
// reference encoder) over a fresh input, returning it with its block size in
// bytes, the content length and the number of blocks.
func (g *gen) storedFrame(p *Plan, maxBlocks int, small bool) (Stored, int, int, int) {
	if g.r.Chance(1, 2) {
		o := g.wopts(1)
		o.HYield = 0
		if o.BS > 5 || small {
			o.BS = 4
		}
		if o.Level > 3 {
			o.Level = g.r.Range(0, 3)
		}
		bs := bsBytes(o.BS)
		n := g.length(bs, maxBlocks)
		if small {
			n = g.r.PickInt(0, 1, 5, 17, 100, 600, 1500, g.r.Range(0, 1800))
		}
		if o.BS == 5 && n > 2*bs {
			n = g.r.Range(0, 2*bs)
		}
		in := len(p.Inputs)
		inp := g.input(n)
		if small && g.r.Chance(1, 2) {
			inp.Class = "random" // keeps tiny frames from collapsing to a handful of bytes
		}
		p.Inputs = append(p.Inputs, inp)
		chunk := 0
		if g.r.Chance(1, 3) && n > 0 {
			chunk = g.r.Range(1, n) // several Write calls; block boundaries do not move
		}
		return Stored{Base: "lz4w", Opts: &o, In: in, Chunk: chunk}, bs, n, n/bs + 1
	}
	e := &EncPlan{BS: g.blockIdx(), BSum: g.r.Chance(1, 2), CSum: g.r.Chance(2, 3), HasSize: g.r.Chance(1, 3)}
	if e.BS > 5 || small {
		e.BS = 4
	}
	bs := bsBytes(e.BS)
	n := g.length(bs, maxBlocks)
	if small {
		n = g.r.PickInt(0, 1, 5, 17, 100, 600, 1500, g.r.Range(0, 1800))
	}
	e.Blocks = g.encBlocks(n, bs)
	in := len(p.Inputs)
	p.Inputs = append(p.Inputs, g.input(n))
	return Stored{Base: "refenc", Enc: e, In: in}, bs, n, maxInt(len(e.Blocks), 1)
}

// encBlocks cuts n bytes into reference-encoder blocks of varied sizes.
func (g *gen) encBlocks(n, bs int) []EncBlockPlan {
	var out []EncBlockPlan
	style := g.r.Pick(40, 30, 30)
	for rem := n; rem > 0; {
		var l int
		switch style {
		case 0:
			l = bs
		case 1:
			l = g.r.PickInt(bs, bs, g.r.Range(1, bs), g.r.Range(1, 64), 13, 12, 5, 1)
		default:
			l = g.r.Range(1, bs)
		}
		if l > rem {
			l = rem
		}
		if len(out) > 60 {
			l = minInt(rem, bs)
		}
		b := EncBlockPlan{Len: l}
		switch g.r.Pick(70, 15, 10, 5) {
		case 1:
			b.Raw = true
		case 2:
			b.NoMatches = true
		case 3:
			b.MinMatch = g.r.PickInt(5, 8, 20)
		}
		out = append(out, b)
		rem -= l
		if g.r.Chance(1, 25) {
			// an empty block (legal: a zero-length stored block, or a
			// compressed block holding one empty sequence)
			out = append(out, EncBlockPlan{Len: 0, Raw: g.r.Bool()})
		}
	}
	return out
}

// ---------------------------------------------------------------------------
// C15: I/O faults (enumerated call index) and fragmentation invariance.

func (g *gen) iofaults(p *Plan) {
	switch g.r.Pick(40, 30, 10, 20) {
	case 0: // producer side: every sink call fails in turn
		p.Kind = "wfault"
		conc := g.conc(true)
		o := g.wopts(conc)
		if o.BS > 5 {
			o.BS = 4
		}
		if o.Level > 3 {
			o.Level = 0
		}
		if g.r.Chance(1, 30) {
			o.Legacy = true
			o.BSum = false
		}
		bs := bsBytes(o.BS)
		n := g.length(bs, 5)
		if o.BS == 5 && n > 2*bs {
			n = g.r.Range(0, 2*bs)
		}
		if o.Legacy {
			n = g.r.Range(0, 200000)
		}
		p.Inputs = []Input{g.input(n)}
		w := WScript{Opts: o, In: 0, Sinks: []SinkPlan{{Yields: g.r.Pick(70, 20, 10)}}}
		if g.r.Chance(1, 4) {
			w.Ops = []WOp{{Op: "readfrom", N: n, Frag: ptrFrag(g.fragFor(n))}}
			if g.r.Chance(1, 4) {
				w.Ops[0].Bufio = g.r.PickInt(16, 4096, 65536)
			}
			if g.r.Chance(1, 2) {
				// the source ReadFrom reads from fails (sticky or transient)
				w.Ops[0].SrcFaults = []RFault{{Call: g.r.Range(1, 6+n/bs*3), Kind: g.r.PickStr("err0", "errn", "err0t")}}
			}
		} else {
			w.Ops = g.writeOps(n, bs, 6)
		}
		if g.r.Chance(1, 3) {
			w.Ops = append(w.Ops, WOp{Op: "flush"})
		}
		w.Ops = append(w.Ops, WOp{Op: "close"})
		// what a caller may do after a failure: carry on, close again, reset
		switch g.r.Pick(60, 15, 10, 15) {
		case 1:
			w.Ops = append(w.Ops, WOp{Op: "write", N: g.r.PickInt(1, 100, bs)}, WOp{Op: "close"})
			p.Inputs[0].Len += bs
		case 2:
			w.Ops = append(w.Ops, WOp{Op: "flush"}, WOp{Op: "close"})
		case 3:
			w.Ops = append(w.Ops, WOp{Op: "reset", Sink: 1}, WOp{Op: "write", N: g.r.PickInt(1, 100, bs)}, WOp{Op: "close"})
			w.Sinks = append(w.Sinks, SinkPlan{})
			p.Inputs[0].Len += bs
		}
		p.Writers = []WScript{w}
		p.Phases = [][]string{{"W0"}}
		p.Procs = g.procsFor(conc)
		p.Twin = true
		p.Enum = &Enum{Kind: "sinkfail", Target: "W0", Full: 64, Seed: g.r.Uint64()}
	case 1, 2: // consumer side
		p.Kind = "rfault"
		st, bs, n, _ := g.storedFrame(p, 5, false)
		if g.r.Chance(1, 12) {
			// legacy frames end with the source: every size-word read is a
			// place where an error could be mistaken for the end
			if st.Base == "lz4w" {
				st.Opts.Legacy = true
			} else {
				st.Enc.Legacy = true
			}
		}
		conc := g.r.PickInt(1, 1, 2, 4)
		if g.r.Chance(1, 5) {
			// skippable frames with user data in front: their bytes are read
			// (and dropped) through the same source
			st.Prefix = []SkipPlan{{Nibble: g.r.Intn(16), Len: g.r.PickInt(0, 1, 50, 300, 5000)}}
		}
		src := Source{Stored: st, Frag: g.fragFor(n), EOFWithData: g.r.Chance(1, 4), Yields: g.r.Pick(70, 20, 10), Seeker: g.r.Chance(1, 6)}
		if src.Frag.Policy == "one" {
			src.Frag.Policy = "small"
		}
		r := RScript{Conc: conc, HYield: g.r.Pick(80, 15, 5), Srcs: []Source{src}}
		r.Ops = g.readOps(bs, n)
		p.Readers = []RScript{r}
		p.Phases = [][]string{{"R0"}}
		if r.Ops[0].Op == "writeto" && g.r.Chance(1, 2) {
			p.Enum = &Enum{Kind: "wtsinkfail", Target: "R0", Full: 64, Seed: g.r.Uint64()}
		} else {
			p.Enum = &Enum{Kind: "srcfail", Target: "R0", Full: 64, Seed: g.r.Uint64()}
		}
	default: // the same stored bytes under every fragmentation policy
		p.Kind = "fraginv"
		st, bs, n, nb := g.storedFrame(p, 4, false)
		if g.r.Chance(1, 4) {
			st.Prefix = []SkipPlan{{Nibble: g.r.Intn(16), Len: g.r.PickInt(1, 50, 300, 5000)}}
		}
		if g.r.Chance(1, 6) {
			if st.Base == "lz4w" {
				st.Opts.Legacy = true
			} else {
				st.Enc.Legacy = true
			}
		}
		switch g.r.Pick(40, 20, 15, 25) {
		case 1:
			st.Mut = []Mutation{g.mutation(nb)}
		case 2:
			st.Mut = []Mutation{{Kind: "cutrand", Byte: g.r.Intn(1 << 30)}}
		case 3:
			st.Mut = []Mutation{{Kind: "cutfield", Field: g.r.PickStr("magic", "lmagic", "bsize", "lbsize", "lbsize", "bsum", "endmark", "csum", "flg", "skmagic", "sklen"), Block: g.r.Intn(nb + 1), Byte: g.r.Intn(4)}}
		}
		conc := g.r.PickInt(1, 1, 2, 4)
		ops := g.readOps(bs, n)
		var grp []int
		var phase []string
		for i, pol := range []string{"full", "one", "small", "rand", "bound"} {
			if pol == "one" && n > 40000 {
				continue
			}
			src := Source{Stored: st, Frag: Frag{Policy: pol, Seed: g.r.Uint64()}, EOFWithData: i%2 == 1}
			if g.r.Chance(1, 2) {
				src.Faults = []RFault{{Call: g.r.Range(1, 10), Kind: "zero"}, {Call: g.r.Range(11, 30), Kind: "zero"}}
			}
			p.Readers = append(p.Readers, RScript{Conc: conc, Srcs: []Source{src}, Ops: ops})
			grp = append(grp, len(p.Readers)-1)
			phase = append(phase, fmt.Sprintf("R%d", len(p.Readers)-1))
		}
		p.SameR = [][]int{grp}
		for _, name := range phase {
			p.Phases = append(p.Phases, []string{name})
		}
	}
}

// ---------------------------------------------------------------------------
// C06: truncation at every byte.

func (g *gen) cuts(p *Plan) {
	p.Kind = "cuts"
	small := g.r.Chance(3, 4)
	st, bs, n, _ := g.storedFrame(p, 3, small)
	if st.Base == "lz4w" && g.r.Chance(1, 8) {
		st.Opts.Legacy = true
		st.Opts.BSum = false
	} else if st.Base == "refenc" && g.r.Chance(1, 8) {
		st.Enc.Legacy = true
	}
	if g.r.Chance(1, 10) {
		st.Prefix = []SkipPlan{{Nibble: g.r.Intn(16), Len: g.r.Range(0, 40)}}
	}
	r := RScript{Conc: 1, Srcs: []Source{{Stored: st, Frag: Frag{Policy: "full"}}}}
	r.Ops = []ROp{{Op: "drain", Sizes: g.readSizes(bs, n)}}
	p.Readers = []RScript{r}
	p.Phases = [][]string{{"R0"}}
	p.Procs = 4
	p.Enum = &Enum{Kind: "cuts", Target: "R0", Seed: g.r.Uint64()}
}

// ---------------------------------------------------------------------------
// C05: corruption.

var fieldKinds = []string{"magic", "flg", "bd", "csize", "hc", "bsize", "bdata", "bsum", "endmark", "csum"}

func (g *gen) mutation(nb int) Mutation {
	if nb < 1 {
		nb = 1
	}
	switch g.r.Pick(45, 20, 8, 8, 8, 6, 5, 3) {
	case 7:
		return Mutation{Kind: "oversize", Val: g.r.PickInt(1, 2, 100, 272, 273)}
	case 0:
		return Mutation{Kind: "flip", Field: fieldKinds[g.r.Pick(3, 6, 6, 6, 8, 18, 20, 14, 9, 10)], Block: g.r.Intn(nb), Byte: g.r.Intn(1 << 20), Bit: g.r.Intn(8)}
	case 1:
		return Mutation{Kind: "set", Field: fieldKinds[g.r.Pick(3, 6, 6, 6, 8, 18, 20, 14, 9, 10)], Block: g.r.Intn(nb), Byte: g.r.Intn(1 << 20), Val: g.r.PickInt(0, 1, 0x7f, 0x80, 0xff, g.r.Intn(256))}
	case 2:
		return Mutation{Kind: "delblock", Block: g.r.Intn(nb)}
	case 3:
		return Mutation{Kind: "dupblock", Block: g.r.Intn(nb)}
	case 4:
		return Mutation{Kind: "swapblocks", Block: g.r.Intn(nb), B2: g.r.Intn(nb)}
	case 5:
		d := make([]byte, g.r.Range(1, 12))
		for i := range d {
			d[i] = byte(g.r.Uint64())
		}
		return Mutation{Kind: "insert", Field: g.r.PickStr("bsize", "bdata", "endmark", "csum"), Block: g.r.Intn(nb), Data: d}
	}
	return Mutation{Kind: "delete", Field: g.r.PickStr("bsize", "bdata", "bsum", "endmark"), Block: g.r.Intn(nb), Byte: g.r.Intn(1 << 20), Val: g.r.Range(1, 9)}
}

func (g *gen) corrupt(p *Plan) {
	p.Kind = "corrupt"
	st, bs, n, nb := g.storedFrame(p, 6, g.r.Chance(1, 5))
	nm := g.r.Pick(0, 70, 20, 10)
	for i := 0; i < nm; i++ {
		st.Mut = append(st.Mut, g.mutation(nb))
	}
	if g.r.Chance(1, 12) {
		// splice: the head of this frame, the tail of another one
		t, _, n2, _ := g.storedFrame(p, 4, false)
		st.Tail2 = &t
		st.Mut = append(st.Mut, Mutation{Kind: "splice", Block: g.r.Intn(nb), B2: g.r.Intn(4)})
		if n2 > n {
			n = n2 // the spliced stream may decode to as much as the other frame holds
		}
	}
	conc := g.r.PickInt(1, 1, 2, 4)
	src := Source{Stored: st, Frag: g.fragFor(n), EOFWithData: g.r.Chance(1, 4)}
	if src.Frag.Policy == "one" {
		src.Frag.Policy = "rand"
	}
	src.Seeker = g.r.Chance(1, 5)
	if len(src.Stored.Prefix) == 0 && g.r.Chance(1, 8) {
		src.Stored.Prefix = []SkipPlan{{Nibble: g.r.Intn(16), Len: g.r.Range(0, 300)}}
	}
	r := RScript{Conc: conc, HYield: g.r.Pick(85, 10, 5), Srcs: []Source{src}}
	r.Ops = g.readOps(bs, n)
	if g.r.Chance(1, 8) {
		// reuse: the Reader first reads (or abandons) a healthy stream with
		// larger blocks, then is Reset onto the corrupted one
		o1 := g.wopts(1)
		o1.BS, o1.Level, o1.HYield = g.r.PickInt(5, 6, 7), 0, 0
		n1 := g.r.PickInt(1000, 300000, bsBytes(o1.BS)+1)
		p.Inputs = append(p.Inputs, g.input(n1))
		first := Source{Stored: Stored{Base: "lz4w", Opts: &o1, In: len(p.Inputs) - 1}, Frag: g.fragFor(n1)}
		r.Srcs = []Source{first, src}
		var op0 ROp
		switch g.r.Intn(3) {
		case 0:
			op0 = ROp{Op: "writeto"}
		case 1:
			op0 = ROp{Op: "drain", Sizes: []int{g.r.PickInt(4096, 65536, n1+10)}}
		default:
			op0 = ROp{Op: "drain", Sizes: []int{4096}, Max: 1}
		}
		r.Ops = append([]ROp{op0, {Op: "reset", Src: 1}}, r.Ops...)
		if r.Srcs[1].Stored.Tail2 == nil && g.r.Chance(1, 2) {
			// the second stream: this frame's header (small blocks) in front
			// of the blocks of a frame with larger blocks, every checksum
			// consistent - only the declared block maximum gives it away
			o2 := o1
			o2.BSum = st.Base == "lz4w" && st.Opts.BSum || st.Base == "refenc" && st.Enc.BSum
			o2.CSum = false
			n2 := g.r.PickInt(bsBytes(o2.BS), 2*bsBytes(o2.BS)+17)
			in2 := g.input(n2)
			in2.Class = g.r.PickStr("random", "mixed", "text")
			p.Inputs = append(p.Inputs, in2)
			t2 := Stored{Base: "lz4w", Opts: &o2, In: len(p.Inputs) - 1}
			s2 := &r.Srcs[1].Stored
			s2.Tail2 = &t2
			s2.Mut = append(s2.Mut, Mutation{Kind: "splice", Block: 0, B2: 0})
		}
	}
	p.Readers = []RScript{r}
	p.Phases = [][]string{{"R0"}}
	p.Procs = 4
}

// ---------------------------------------------------------------------------
// C07: hostile input.

func (g *gen) hostile(p *Plan) {
	p.Kind = "hostile"
	conc := g.r.PickInt(1, 1, 2, 4)
	var st Stored
	n := 0
	bs := 64 << 10
	switch g.r.Pick(8, 35, 42, 15) {
	case 0: // random bytes
		n = g.r.PickInt(0, 1, 3, 4, 5, 7, 8, 11, 64, g.r.Range(0, 5000))
		p.Inputs = []Input{{Class: "random", Len: n, Seed: g.r.Uint64()}}
		st = Stored{Base: "raw", In: 0}
	case 1: // heavily mutated valid frames
		var nb int
		st, bs, n, nb = g.storedFrame(p, 4, g.r.Chance(1, 3))
		for i, k := 0, g.r.Range(1, 50); i < k; i++ {
			st.Mut = append(st.Mut, g.mutation(nb))
		}
	case 2: // grammar-built hostile streams
		p.Inputs = []Input{{Class: "mixed", Len: 200000, Seed: g.r.Uint64()}}
		st = Stored{Base: "hostile", In: 0, Hostile: g.hostileGrammar()}
		n = 600000 // what such a stream may decode to: keeps the number of Read calls bounded
	default: // every first word around the reserved values, then a valid frame
		word := uint32(0x184D2A00 + g.r.Intn(256))
		switch g.r.Intn(8) {
		case 0:
			word = g.r.PickU32(0x184D2203, 0x184D2205, 0x184C2101, 0x184C2103, 0x184D2A4F, 0x184D2A60, 0x184D2B50, 0x194D2A50, 0x184D2204^0x80000000, 0)
		}
		p.Inputs = []Input{g.input(g.r.Range(0, 3000))}
		o := g.wopts(1)
		o.BS = 4
		skipLen := g.r.PickInt(0, 1, 7, 100, 4096, g.r.Range(0, 40), g.r.Range(0, 40))
		items := []HItem{{Kind: "word", Val: word}, {Kind: "word", Val: uint32(skipLen)}, {Kind: "fill", Len: skipLen, Seed: g.r.Uint64()}}
		st = Stored{Base: "hostile", In: 0, Hostile: &Hostile{Items: items}, Tail2: &Stored{Base: "lz4w", Opts: &o, In: 0}}
	}
	src := Source{Stored: st, Frag: g.fragFor(1 << 20), EOFWithData: g.r.Chance(1, 4), Seeker: g.r.Chance(1, 5)}
	r := RScript{Conc: conc, HYield: g.r.Pick(85, 10, 5), Srcs: []Source{src}}
	r.Ops = g.readOps(bs, n)
	if r.Ops[0].Op == "writeto" && g.r.Chance(1, 2) {
		r.Ops[0].Sink.Grow = true // a destination that can grow, like a bytes.Buffer
	}
	p.Readers = []RScript{r}
	p.Phases = [][]string{{"R0"}}
	p.Procs = 4
}

func (r *Rand) PickU32(vals ...uint32) uint32 { return vals[r.Intn(len(vals))] }

func (g *gen) hostileGrammar() *Hostile {
	h := &Hostile{}
	add := func(it HItem) { h.Items = append(h.Items, it) }
	// long runs of empty skippable frames (each is skipped, then a new frame
	// is expected): must be handled in constant stack
	if g.r.Chance(1, 30) {
		fr := []byte{0x50 + byte(g.r.Intn(16)), 0x2A, 0x4D, 0x18, 0, 0, 0, 0}
		add(HItem{Kind: "bytes", Data: fr, Rep: g.r.PickInt(2, 1000, 1<<18, 1<<20)})
	}
	// optional skippable frames with hostile lengths
	for g.r.Chance(1, 4) {
		l := g.r.PickU32(0, 1, 100, 0xFFFFFFFF, 0x7FFFFFFF, 0x80000000, 1<<20, uint32(g.r.Range(0, 40)), uint32(g.r.Range(0, 40)))
		add(HItem{Kind: "word", Val: 0x184D2A50 + uint32(g.r.Intn(16))})
		add(HItem{Kind: "word", Val: l})
		if l <= 1<<20 && g.r.Chance(3, 4) {
			add(HItem{Kind: "fill", Len: int(l), Seed: g.r.Uint64()})
		} else {
			add(HItem{Kind: "fill", Len: g.r.Range(0, 300), Seed: g.r.Uint64()})
			return h
		}
	}
	switch g.r.Pick(70, 20, 10) {
	case 1: // legacy
		add(HItem{Kind: "word", Val: 0x184C2102})
		for i, k := 0, g.r.Range(0, 6); i < k; i++ {
			switch g.r.Intn(5) {
			case 0:
				add(HItem{Kind: "word", Val: 0x184C2102, Rep: g.r.PickInt(1, 2, 1000, 100000, 1<<20)})
			case 1:
				add(HItem{Kind: "word", Val: g.r.PickU32(0, 1, 0x7FFFFFFF, 0x80000000, 0xFFFFFFFF, 8<<20, 8<<20+1, 0x184D2204)})
			default:
				n := g.r.Range(1, 300)
				add(HItem{Kind: "word", Val: uint32(n)})
				add(HItem{Kind: "fill", Len: n - g.r.Pick(90, 10), Seed: g.r.Uint64()})
			}
		}
		return h
	case 2: // bare magic repetitions and garbage
		add(HItem{Kind: "word", Val: g.r.PickU32(0x184D2204, 0x184C2102, 0x184C2102), Rep: g.r.PickInt(1, 2, 3, 1000, 1<<20)})
		add(HItem{Kind: "fill", Len: g.r.Range(0, 100), Seed: g.r.Uint64()})
		return h
	}
	// modern frame header with hostile fields
	flg := uint32(0x40)
	if g.r.Chance(4, 5) {
		flg |= 0x20
	}
	if g.r.Bool() {
		flg |= 0x10
	}
	if g.r.Bool() {
		flg |= 0x04
	}
	it := HItem{Kind: "header"}
	if g.r.Chance(1, 3) {
		flg |= 0x08
		it.Has = true
		it.Size = []uint64{0, 1, 1 << 32, 1<<63 - 1, 1<<64 - 1, 65536, 1 << 28, 1 << 30, 1<<31 - 1, 100 << 20}[g.r.Intn(10)]
	}
	if g.r.Chance(1, 10) {
		flg ^= uint32(1 << uint(g.r.Intn(8))) // version / reserved / dict bits
	}
	bd := uint32(g.r.PickInt(4, 4, 4, 5, 6, 7, 0, 1, 2, 3)) << 4
	if g.r.Chance(1, 15) {
		bd |= uint32(g.r.Intn(16))
	}
	it.Val = flg | bd<<8
	if g.r.Chance(1, 12) {
		it.Val2 = uint32(g.r.Range(1, 255))
	}
	add(it)
	for i, k := 0, g.r.Range(0, 8); i < k; i++ {
		switch g.r.Pick(30, 25, 15, 15, 15, 12, 8) {
		case 6: // a stored block slightly larger than the declared maximum, complete
			bmax := []int{0, 0, 0, 0, 64 << 10, 256 << 10, 1 << 20, 4 << 20}[(bd>>4)&7]
			if bmax == 0 || bmax > 256<<10 {
				bmax = 64 << 10
			}
			n := bmax + g.r.PickInt(1, 2, 100, 272, 273, 1000)
			add(HItem{Kind: "word", Val: uint32(n) | 0x80000000})
			add(HItem{Kind: "fill", Len: n, Seed: g.r.Uint64()})
			if flg&0x10 != 0 {
				add(HItem{Kind: "fill", Len: 4, Seed: g.r.Uint64()})
			}
		case 5: // a well-formed compressed block that decodes to a chosen length ("bomb")
			target := g.r.PickInt(65535, 65536, 65537, 70000, 300000, 4<<20+1)
			b := []byte{0x1f, 'a', 1, 0}
			rem := target - 1 - 19
			for ; rem >= 255; rem -= 255 {
				b = append(b, 255)
			}
			b = append(b, byte(rem))
			add(HItem{Kind: "word", Val: uint32(len(b))})
			add(HItem{Kind: "bytes", Data: b})
			if flg&0x10 != 0 {
				add(HItem{Kind: "sumprev"})
			}
		case 0: // a proper raw block
			add(HItem{Kind: "rawblock", Len: g.r.PickInt(0, 1, 100, 65536, 65537, g.r.Range(0, 70000))})
		case 1: // hostile size words
			add(HItem{Kind: "word", Val: g.r.PickU32(0x7FFFFFFF, 0xFFFFFFFF, 0x80000000, 0x80000001, 65537, 0x80010001, 4<<20+1, 1<<30, 0x184C2102, 0x184D2204)})
			add(HItem{Kind: "fill", Len: g.r.Range(0, 200), Seed: g.r.Uint64()})
		case 2: // long runs of zero-length raw blocks
			add(HItem{Kind: "word", Val: 0x80000000, Rep: g.r.PickInt(1, 2, 100, 3000)})
		case 3: // a compressed block of garbage
			n := g.r.Range(1, 400)
			add(HItem{Kind: "word", Val: uint32(n)})
			add(HItem{Kind: "fill", Len: n, Seed: g.r.Uint64()})
			if flg&0x10 != 0 {
				add(HItem{Kind: "fill", Len: 4, Seed: g.r.Uint64()})
			}
		default: // tiny valid compressed blocks: token 0 (empty), short literals
			b := [][]byte{{0x00}, {0x10, 'a'}, {0x11, 'a', 1, 0}, {0x1f, 'a', 1, 0, 255, 255, 10}}[g.r.Intn(4)]
			add(HItem{Kind: "word", Val: uint32(len(b))})
			add(HItem{Kind: "bytes", Data: b})
		}
	}
	if g.r.Chance(2, 3) {
		add(HItem{Kind: "word", Val: 0})
		if flg&0x04 != 0 {
			add(HItem{Kind: "fill", Len: 4, Seed: g.r.Uint64()})
		}
	}
	return h
}

// ---------------------------------------------------------------------------
// C16: dependent blocks.

func (g *gen) dependent(p *Plan) {
	p.Kind = "dependent"
	e := &EncPlan{BS: g.blockIdx(), Dependent: true, BSum: g.r.Chance(1, 3), CSum: g.r.Chance(2, 3), HasSize: g.r.Chance(1, 4)}
	if e.BS == 7 && g.r.Chance(2, 3) {
		e.BS = 4
	}
	bs := bsBytes(e.BS)
	n := g.r.PickInt(65536, 70000, 131072, 200000, g.r.Range(1, 300000), g.r.Range(65536, 1<<20))
	if e.BS == 7 && g.r.Chance(1, 3) {
		n = g.r.Range(4<<20, 8<<20)
	}
	in := g.input(n)
	in.Class = []string{"repeat", "mixed", "text"}[g.r.Pick(50, 30, 20)]
	p.Inputs = []Input{in}
	e.Blocks = g.encBlocks(n, bs)
	src := Source{Stored: Stored{Base: "refenc", Enc: e, In: 0}, Frag: g.fragFor(n), EOFWithData: g.r.Chance(1, 4)}
	r := RScript{Conc: g.r.PickInt(1, 2, 4, 0), Srcs: []Source{src}}
	if g.r.Chance(1, 4) {
		r.Ops = []ROp{{Op: "writeto"}}
	} else {
		// buffer sizes below, at and above the block size so both decode paths alternate
		var sizes []int
		for i, k := 0, g.r.Range(1, 5); i < k; i++ {
			sizes = append(sizes, g.r.PickInt(1000, 4096, bs-1, bs, bs+1, 2*bs, 65536, 65535, 100000, g.r.Range(100, 2*bs)))
		}
		r.Ops = []ROp{{Op: "drain", Sizes: sizes}}
	}
	r.Ops = append(r.Ops, ROp{Op: "read", N: 16})
	if g.r.Chance(15, 100) {
		// reuse of the Reader: a second dependent-block frame after Reset
		// (the window and its buffers must not leak from one stream to the next)
		n2 := g.r.PickInt(70000, 131072, g.r.Range(1, 300000))
		in2 := g.input(n2)
		in2.Class = []string{"repeat", "mixed", "text"}[g.r.Pick(50, 30, 20)]
		p.Inputs = append(p.Inputs, in2)
		e2 := &EncPlan{BS: 4, Dependent: true, BSum: g.r.Bool(), CSum: g.r.Bool()}
		e2.Blocks = g.encBlocks(n2, 64<<10)
		r.Srcs = append(r.Srcs, Source{Stored: Stored{Base: "refenc", Enc: e2, In: 1}, Frag: g.fragFor(n2), EOFWithData: g.r.Chance(1, 4)})
		r.Ops = append(r.Ops, ROp{Op: "reset", Src: 1})
		if g.r.Bool() {
			r.Ops = append(r.Ops, ROp{Op: "writeto"})
		} else {
			r.Ops = append(r.Ops, ROp{Op: "drain", Sizes: []int{g.r.PickInt(1000, 65535, 65536, 100000)}})
		}
	}
	p.Readers = []RScript{r}
	p.Phases = [][]string{{"R0"}}
	p.Procs = 4
}

// ---------------------------------------------------------------------------
// C18: the compressing reader.

func (g *gen) creader(p *Plan) {
	p.Kind = "cr"
	o := WOpts{BS: g.blockIdx(), BSum: g.r.Chance(1, 3), CSum: g.r.Chance(2, 3), Conc: 1}
	if o.BS > 5 && g.r.Chance(2, 3) {
		o.BS = 4
	}
	if g.r.Chance(1, 4) {
		o.Size = -1
	}
	switch g.r.Pick(65, 25, 10) {
	case 1:
		o.Level = g.r.Range(1, 3)
	case 2:
		o.Level = g.r.Range(4, 9)
	}
	if g.r.Chance(1, 12) {
		o = WOpts{Default: true}
	}
	bs := BlockBytesOf(o)
	maxBlocks := 4
	if bs > 256<<10 {
		maxBlocks = 2
	}
	n := g.length(bs, maxBlocks)
	if o.Level >= 4 && n > 200000 {
		n = g.r.Range(0, 200000)
	}
	p.Inputs = []Input{g.input(n)}
	c := CScript{Opts: o, In: 0, Frag: g.fragFor(n), EOFWithData: g.r.Chance(1, 3), Adaptive: g.r.Chance(1, 2)}
	if g.r.Chance(1, 5) {
		// sticky or transient source failures, at a call drawn from the
		// number of calls the fragmentation policy implies
		maxCall := 8
		if c.Frag.Policy == "small" || c.Frag.Policy == "one" {
			maxCall = 8 + n/4
		} else if c.Frag.Policy == "rand" {
			maxCall = 8 + n/(bs/2+1)*3
		}
		c.Faults = []RFault{{Call: g.r.Range(1, maxCall), Kind: g.r.PickStr("err0", "errn", "err0t", "err0t")}}
	} else if g.r.Chance(1, 8) {
		c.Faults = []RFault{{Call: g.r.Range(1, 8), Kind: "zero"}}
	}
	k := g.r.Range(1, 5)
	small := n <= 70000
	for i := 0; i < k; i++ {
		s := g.r.PickInt(7, 8, 9, 100, 1000, 4096, bs/2, bs, bs+100, 2*bs, n+1000, g.r.Range(1, bs))
		if small {
			s = g.r.PickInt(0, 1, 2, 3, 4, 5, 6, 7, 8, 9, 15, 16, 100, 1000, 4096, n/2+1, n+1000, g.r.Range(1, 300))
		}
		c.Sizes = append(c.Sizes, s)
	}
	// never only zero-length buffers
	c.Sizes = append(c.Sizes, g.r.PickInt(1, 7, 64, 4096))
	// exact-fit mode: buffer sizes are derived at execution time from the
	// structure of the frame so that Read buffers end exactly on (or one
	// byte around) the boundaries of what the reader emits
	c.Exact = g.r.Chance(1, 3)
	c.ExactSeed = g.r.Uint64()
	if g.r.Chance(1, 5) {
		// reuse of the object: Reset onto a new source, other options
		o2 := WOpts{BS: g.blockIdx(), BSum: g.r.Bool(), CSum: g.r.Bool(), Conc: 1, Level: g.r.Pick(70, 20, 10)}
		if o2.BS > 5 && g.r.Chance(2, 3) {
			o2.BS = 4
		}
		if g.r.Chance(1, 4) {
			o2.Size = -1
		}
		n2 := g.length(BlockBytesOf(o2), 3)
		p.Inputs = append(p.Inputs, g.input(n2))
		c2 := CScript{Opts: o2, In: 1, Frag: g.fragFor(n2), EOFWithData: g.r.Chance(1, 3)}
		for i, k := 0, g.r.Range(1, 3); i < k; i++ {
			sz := g.r.PickInt(1, 7, 100, 4096, 65536, n2+1000, g.r.Range(1, 70000))
			if m := n2 / 4000; sz < m {
				sz = m // keeps the number of Read calls bounded
			}
			c2.Sizes = append(c2.Sizes, sz)
		}
		c.Next = &c2
	}
	p.CRs = []CScript{c}
	p.Phases = [][]string{{"C0"}}
}

// BlockBytesOf mirrors the block size selection of options.
func BlockBytesOf(o WOpts) int {
	if o.Default || o.BS == 0 || o.BS == 7 {
		return 4 << 20
	}
	return bsBytes(o.BS)
}
