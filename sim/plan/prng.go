// Package plan holds the pure-data description of one simulated run (a Plan),
// the PRNG every choice is derived from, the per-property generators and the
// shrinker. Nothing here touches the code under test.
package plan

// SplitMix64 is used to derive independent seeds.
func SplitMix64(x uint64) uint64 {
	x += 0x9E3779B97F4A7C15
	z := x
	z = (z ^ (z >> 30)) * 0xBF58476D1CE4E5B9
	z = (z ^ (z >> 27)) * 0x94D049BB133111EB
	return z ^ (z >> 31)
}

// Mix derives a seed from a base seed and labels.
func Mix(seed uint64, labels ...uint64) uint64 {
	x := SplitMix64(seed)
	for _, l := range labels {
		x = SplitMix64(x ^ SplitMix64(l+0x51ED27))
	}
	return x
}

// HashString is FNV-1a 64.
func HashString(s string) uint64 {
	h := uint64(14695981039346656037)
	for i := 0; i < len(s); i++ {
		h ^= uint64(s[i])
		h *= 1099511628211
	}
	return h
}

// Rand is xoshiro256**, implemented here so that replays never depend on a
// toolchain's math/rand.
type Rand struct{ s [4]uint64 }

func NewRand(seed uint64) *Rand {
	r := &Rand{}
	x := seed
	for i := range r.s {
		x = SplitMix64(x)
		r.s[i] = x
	}
	return r
}

//go:norace
func rotl64(x uint64, k uint) uint64 { return x<<k | x>>(64-k) }

//go:norace
func (r *Rand) Uint64() uint64 {
	s := &r.s
	res := rotl64(s[1]*5, 7) * 9
	t := s[1] << 17
	s[2] ^= s[0]
	s[3] ^= s[1]
	s[1] ^= s[2]
	s[0] ^= s[3]
	s[2] ^= t
	s[3] = rotl64(s[3], 45)
	return res
}

// Intn returns a value in [0,n). n must be > 0.
//
//go:norace
func (r *Rand) Intn(n int) int {
	if n <= 0 {
		panic("Intn: n <= 0")
	}
	return int(r.Uint64() % uint64(n))
}

// Range returns a value in [lo,hi].
//
//go:norace
func (r *Rand) Range(lo, hi int) int {
	if hi <= lo {
		return lo
	}
	return lo + r.Intn(hi-lo+1)
}

//go:norace
func (r *Rand) Bool() bool { return r.Uint64()&1 == 1 }

// Chance is true with probability num/den.
//
//go:norace
func (r *Rand) Chance(num, den int) bool { return r.Intn(den) < num }

// Pick returns one of the weights' indices with probability proportional to it.
//
//go:norace
func (r *Rand) Pick(weights ...int) int {
	t := 0
	for _, w := range weights {
		t += w
	}
	x := r.Intn(t)
	for i, w := range weights {
		if x < w {
			return i
		}
		x -= w
	}
	return len(weights) - 1
}

//go:norace
func (r *Rand) PickInt(vals ...int) int { return vals[r.Intn(len(vals))] }

//go:norace
func (r *Rand) PickStr(vals ...string) string { return vals[r.Intn(len(vals))] }
