package plan

import "fmt"

// Gen builds the plan of run `index` of a check. Everything is drawn from one
// PRNG seeded by (seed, property, index).
func Gen(prop, tier string, seed uint64, index int) *Plan {
	rs := Mix(seed, HashString(prop), uint64(index))
	g := &gen{r: NewRand(rs), tier: tier}
	p := &Plan{Prop: prop, Seed: rs, Index: index}
	p.Sched = g.sched()
	p.Pool = g.pool()
	switch prop {
	case "C02":
		g.roundtrip(p, false)
	case "C09":
		if g.r.Chance(15, 100) {
			// the compressing reader's output is held to the same specification
			g.creader(p)
			p.CRs[0].Faults = nil
		} else {
			g.roundtrip(p, true)
		}
	case "C08":
		g.pipeline(p)
	case "C14":
		g.determinism(p)
	case "C15":
		g.iofaults(p)
	case "C06":
		g.cuts(p)
	case "C05":
		g.corrupt(p)
	case "C07":
		g.hostile(p)
	case "C16":
		g.dependent(p)
	case "C17":
		g.lifecycle(p)
	case "C18":
		g.creader(p)
	default:
		panic("no generator for " + prop)
	}
	return p
}

type gen struct {
	r    *Rand
	tier string
}

func (g *gen) thorough() bool { return g.tier == "thorough" }

func (g *gen) sched() Sched {
	s := Sched{Seed: g.r.Uint64()}
	switch g.r.Pick(35, 20, 15, 20, 10) {
	case 0:
		s.Policy = "random"
	case 1:
		s.Policy = "pct"
		s.Depth = g.r.Range(1, 3)
	case 2:
		s.Policy = "rtb"
	case 3:
		s.Policy = "starve"
		s.Starve = g.r.PickStr("collector", "worker", "client", "R.reader")
	default:
		s.Policy = "rr"
	}
	return s
}

func (g *gen) pool() string {
	return []string{"lifo", "fifo", "random", "fresh", "passthrough"}[g.r.Pick(40, 10, 20, 20, 10)]
}

func bsBytes(bs int) int {
	switch bs {
	case 4:
		return 64 << 10
	case 5:
		return 256 << 10
	case 6:
		return 1 << 20
	}
	return 4 << 20
}

// blockIdx draws a block size index; small blocks dominate to keep runs short.
func (g *gen) blockIdx() int {
	return []int{4, 5, 6, 7}[g.r.Pick(82, 10, 5, 3)]
}

func (g *gen) conc(allowSeq bool) int {
	if allowSeq && g.r.Chance(1, 3) {
		return 1
	}
	return g.r.PickInt(2, 2, 3, 4, 4, 8, 0)
}

func (g *gen) wopts(conc int) WOpts {
	o := WOpts{BS: g.blockIdx(), BSum: g.r.Chance(1, 3), CSum: g.r.Chance(2, 3), Conc: conc}
	if g.r.Chance(1, 4) {
		o.Size = -1
	}
	switch g.r.Pick(60, 25, 15) {
	case 1:
		o.Level = g.r.Range(1, 3)
	case 2:
		o.Level = g.r.Range(4, 9)
	}
	if g.r.Chance(1, 5) {
		o.HYield = g.r.Range(1, 2)
	}
	return o
}

// length draws an input length from the classes of C02, relative to bs bytes.
func (g *gen) length(bs, maxBlocks int) int {
	k := g.r.Range(2, maxBlocks)
	switch g.r.Pick(6, 6, 8, 10, 10, 10, 14, 12, 24) {
	case 0:
		return 0
	case 1:
		return 1
	case 2:
		return g.r.Range(2, 200)
	case 3:
		return bs - 1
	case 4:
		return bs
	case 5:
		return bs + 1
	case 6:
		return k * bs
	case 7:
		return k*bs + g.r.PickInt(-1, 1)
	}
	return g.r.Range(1, maxBlocks*bs)
}

func (g *gen) input(n int) Input {
	cls := []string{"text", "random", "mixed", "zeros", "repeat"}[g.r.Pick(35, 15, 30, 5, 15)]
	return Input{Class: cls, Len: n, Seed: g.r.Uint64()}
}

// writeOps partitions total bytes into Write calls (and optional Flush calls).
func (g *gen) writeOps(total, bs int, flushPct int) []WOp {
	var ops []WOp
	if total == 0 {
		if g.r.Bool() {
			ops = append(ops, WOp{Op: "write", N: 0})
		}
		return ops
	}
	style := g.r.Pick(25, 20, 35, 20)
	rem := total
	fixed := g.r.PickInt(1000, 4096, bs-1, bs, bs+1, 2*bs+7, bs/2, 3*bs)
	if total <= 4096 && g.r.Chance(1, 3) {
		fixed = g.r.Range(1, 16)
	}
	for rem > 0 {
		var n int
		switch style {
		case 0:
			n = rem
		case 1:
			n = fixed
		case 2:
			n = g.r.PickInt(1, 7, 100, 1000, 4096, bs-1, bs, bs+1, 2*bs+7, bs/2, g.r.Range(1, 2*bs))
		default:
			n = g.r.Range(1, bs+bs/2)
		}
		if n > rem {
			n = rem
		}
		if len(ops) > 150 {
			n = rem
		}
		ops = append(ops, WOp{Op: "write", N: n})
		rem -= n
		if flushPct > 0 && rem > 0 && g.r.Chance(flushPct, 100) {
			ops = append(ops, WOp{Op: "flush"})
		}
	}
	return ops
}

func (g *gen) frag() Frag {
	pol := []string{"full", "one", "small", "rand", "bound"}[g.r.Pick(30, 8, 17, 30, 15)]
	return Frag{Policy: pol, Seed: g.r.Uint64()}
}

// fragFor avoids single-byte reads on big media.
func (g *gen) fragFor(size int) Frag {
	f := g.frag()
	if size > 70000 && (f.Policy == "one" || f.Policy == "small") {
		f.Policy = "rand"
	}
	return f
}

func (g *gen) readSizes(bs, content int) []int {
	n := g.r.Range(1, 4)
	var out []int
	for i := 0; i < n; i++ {
		s := g.r.PickInt(7, 100, 1000, 4096, bs-1, bs, bs+1, 2*bs, content+10, g.r.Range(1, bs))
		if content <= 70000 && g.r.Chance(1, 6) {
			s = 1
		}
		if s <= 0 {
			s = 1
		}
		// keep the number of Read calls per run bounded
		if m := content / 4000; s < m {
			s = m
		}
		out = append(out, s)
	}
	return out
}

func (g *gen) readOps(bs, content int) []ROp {
	if g.r.Chance(1, 3) {
		return []ROp{{Op: "writeto", Sink: &SinkPlan{Yields: g.r.Pick(70, 20, 10)}}}
	}
	return []ROp{{Op: "drain", Sizes: g.readSizes(bs, content)}}
}

func (g *gen) procsFor(concs ...int) int {
	for _, c := range concs {
		if c <= 0 {
			return g.r.PickInt(2, 3, 4, 16)
		}
	}
	return 0
}

// ---------------------------------------------------------------------------
// C02 / C09: frame round trip, frame conformance.

func (g *gen) roundtrip(p *Plan, conformance bool) {
	p.Kind = "roundtrip"
	wconc := g.conc(true)
	o := g.wopts(wconc)
	maxBlocks := 6
	if o.BS >= 6 {
		maxBlocks = 2
	} else if o.BS == 5 {
		maxBlocks = 3
	}
	if g.r.Chance(1, 40) && o.Level < 4 {
		// legacy frames: 8 MiB blocks (every other option stays in play: the
		// legacy format simply has no place for checksums or a size)
		o.Legacy = true
	}
	bs := bsBytes(o.BS)
	var n int
	if o.Legacy {
		bs = 8 << 20
		n = g.r.PickInt(0, 1, 1000, 100000, bs-1, bs, bs+1, bs+100000)
		if g.r.Chance(1, 2) {
			n = g.r.Range(0, 300000)
		}
	} else {
		n = g.length(bs, maxBlocks)
	}
	if o.Level >= 4 && n > 256<<10 {
		n = g.r.Range(0, 256<<10)
	}
	in := g.input(n)
	if conformance {
		switch g.r.Pick(50, 15, 10, 25) {
		case 1:
			// blocks whose stored bytes hash to zero: incompressible data, so
			// the stored bytes are the content bytes
			in.Class = "random"
			in.ZeroSumEvery = bs
			o.BSum = true
		case 2:
			in.ZeroSumAll = true
			o.CSum = true
		case 3:
			in.Class = "random"
		}
		if o.Legacy && g.r.Chance(1, 2) {
			// incompressible 8 MiB legacy blocks, with or without a late match
			in.Class = g.r.PickStr("random", "randtail")
		} else if g.r.Chance(1, 25) {
			in.Class = "randtail"
		}
	}
	p.Inputs = []Input{in}
	w := WScript{Opts: o, In: 0, Sinks: []SinkPlan{{Yields: g.r.Pick(70, 20, 10)}}}
	if g.r.Chance(1, 4) {
		w.Ops = []WOp{{Op: "readfrom", N: n, Frag: ptrFrag(g.fragFor(n))}}
		if g.r.Chance(1, 4) {
			w.Ops[0].Bufio = g.r.PickInt(16, 4096, 65536) // a source that is also an io.WriterTo
		}
	} else {
		w.Ops = g.writeOps(n, bs, 4)
	}
	w.Ops = append(w.Ops, WOp{Op: "close"})
	p.Writers = []WScript{w}
	rconc := g.conc(true)
	r := RScript{Conc: rconc, HYield: g.r.Pick(80, 15, 5)}
	src := Source{Stored: Stored{Base: "sink", Writer: 0, SinkIdx: 0}, Frag: g.fragFor(n), EOFWithData: g.r.Chance(1, 4)}
	if g.r.Chance(1, 10) {
		src.Faults = []RFault{{Call: g.r.Range(1, 12), Kind: "zero"}}
	}
	if g.r.Chance(1, 10) {
		src.Bufio = g.r.PickInt(16, 100, 4096, 65536)
	}
	src.Seeker = g.r.Chance(1, 6)
	r.Srcs = []Source{src}
	r.Ops = g.readOps(bs, n)
	r.Ops = append(r.Ops, ROp{Op: "read", N: 16})
	p.Readers = []RScript{r}
	p.Phases = [][]string{{"W0"}, {"R0"}}
	p.Procs = g.procsFor(wconc, rconc)
}

func ptrFrag(f Frag) *Frag { return &f }

// ---------------------------------------------------------------------------
// C08: the concurrent pipelines.

func (g *gen) pipeWriter(p *Plan, flushPct int) WScript {
	conc := g.conc(false)
	o := g.wopts(conc)
	if o.BS > 5 {
		o.BS = 4
	}
	if o.Level > 3 {
		o.Level = g.r.Range(0, 3)
	}
	o.HYield = g.r.Pick(50, 30, 20)
	bs := bsBytes(o.BS)
	nsinks := 1
	w := WScript{Opts: o}
	frames := 1
	if g.r.Chance(3, 10) {
		frames = 2
	}
	total := 0
	for f := 0; f < frames; f++ {
		n := g.length(bs, 8)
		if o.BS == 5 && n > 3*bs {
			n = g.r.Range(0, 3*bs)
		}
		if g.r.Chance(1, 5) {
			w.Ops = append(w.Ops, WOp{Op: "readfrom", N: n, Frag: ptrFrag(g.fragFor(n))})
		} else {
			w.Ops = append(w.Ops, g.writeOps(n, bs, flushPct)...)
		}
		total += n
		if g.r.Chance(9, 10) {
			w.Ops = append(w.Ops, WOp{Op: "close"})
		}
		if f+1 < frames {
			w.Ops = append(w.Ops, WOp{Op: "reset", Sink: nsinks})
			nsinks++
			if g.r.Chance(1, 3) {
				// options may be changed right after Reset (the goroutines of
				// the previous frame may still be finishing)
				no := o
				no.HYield = g.r.Pick(50, 30, 20)
				no.BSum = g.r.Bool()
				w.Ops = append(w.Ops, WOp{Op: "apply", Opts: &no})
			}
		}
	}
	for i := 0; i < nsinks; i++ {
		w.Sinks = append(w.Sinks, SinkPlan{Yields: g.r.Pick(50, 30, 20)})
	}
	if g.r.Chance(15, 100) {
		// a sink fault while blocks are in flight
		k := g.r.Range(1, 3+3*total/bs)
		w.Sinks[0].Faults = []WFault{{Call: k, Kind: g.r.PickStr("fail", "short"), M: g.r.Range(0, 3), Forever: g.r.Bool()}}
	}
	w.In = len(p.Inputs)
	p.Inputs = append(p.Inputs, g.input(total))
	if conc <= 0 && p.Procs == 0 {
		p.Procs = g.r.PickInt(2, 3, 4, 16)
	}
	return w
}

func (g *gen) pipeReader(p *Plan) RScript {
	conc := g.r.PickInt(2, 2, 3, 4, 8, 0)
	st, bs, n, _ := g.storedFrame(p, 8, false)
	nb := n/bs + 1
	src := Source{Stored: st, Frag: g.fragFor(n), EOFWithData: g.r.Chance(1, 4), Yields: g.r.Pick(60, 30, 10)}
	switch g.r.Pick(55, 20, 15, 10) {
	case 1: // early decoding error
		src.Stored.Mut = []Mutation{{Kind: "flip", Field: g.r.PickStr("bdata", "bsum", "bsize", "csum"), Block: g.r.Intn(nb), Byte: g.r.Intn(1 << 20), Bit: g.r.Intn(8)}}
	case 2: // early source error
		src.Faults = []RFault{{Call: g.r.Range(1, 3+4*nb), Kind: g.r.PickStr("err0", "errn")}}
	case 3: // truncated
		src.Stored.Cut = -1 // resolved by the executor: a random cut from the seed
		src.Stored.Mut = []Mutation{{Kind: "cutrand", Byte: g.r.Intn(1 << 30)}}
		src.Stored.Cut = 0
	}
	r := RScript{Conc: conc, HYield: g.r.Pick(50, 30, 20), Srcs: []Source{src}}
	r.Ops = g.readOps(bs, n)
	if g.r.Chance(1, 10) && r.Ops[0].Op == "drain" {
		r.Ops[0].Max = g.r.Range(1, 5) // early stop: the pipeline is abandoned
	}
	if g.r.Chance(15, 100) {
		// reuse: the first stream is abandoned (early stop, failing WriteTo
		// sink, or whatever the draw above made of it), then the Reader is
		// Reset onto a second, healthy stream while the goroutines of the
		// first may still be running
		switch g.r.Intn(3) {
		case 0:
			r.Ops[0] = ROp{Op: "drain", Sizes: g.readSizes(bs, n), Max: g.r.Range(1, 4)}
		case 1:
			r.Ops[0] = ROp{Op: "writeto", Sink: &SinkPlan{Faults: []WFault{{Call: g.r.Range(1, 4), Kind: "fail", Forever: true}}, Yields: g.r.Pick(50, 30, 20)}}
		}
		st2, bs2, n2, _ := g.storedFrame(p, 4, false)
		r.Srcs = append(r.Srcs, Source{Stored: st2, Frag: g.fragFor(n2), EOFWithData: g.r.Chance(1, 4), Yields: g.r.Pick(60, 30, 10)})
		r.Ops = append(r.Ops[:1:1], ROp{Op: "reset", Src: 1})
		r.Ops = append(r.Ops, g.readOps(bs2, n2)...)
	}
	if conc <= 0 && p.Procs == 0 {
		p.Procs = g.r.PickInt(2, 3, 4, 16)
	}
	return r
}

func (g *gen) pipeline(p *Plan) {
	p.Kind = "pipeline"
	nc := 1
	if g.r.Chance(3, 10) {
		nc = 2
	}
	var phase []string
	for c := 0; c < nc; c++ {
		if g.r.Chance(6, 10) {
			p.Writers = append(p.Writers, g.pipeWriter(p, 5))
			phase = append(phase, fmt.Sprintf("W%d", len(p.Writers)-1))
		} else {
			p.Readers = append(p.Readers, g.pipeReader(p))
			phase = append(phase, fmt.Sprintf("R%d", len(p.Readers)-1))
		}
	}
	p.Phases = [][]string{phase}
}

// ---------------------------------------------------------------------------
// C14: determinism.

func (g *gen) determinism(p *Plan) {
	p.Kind = "determinism"
	o := g.wopts(1)
	if o.BS > 5 {
		o.BS = 4
	}
	o.HYield = 0
	bs := bsBytes(o.BS)
	n := g.length(bs, 6)
	if o.BS == 5 && n > 2*bs {
		n = g.r.Range(0, 2*bs)
	}
	if o.Level >= 4 && n > 200000 {
		n = g.r.Range(0, 200000)
	}
	p.Inputs = []Input{g.input(n), g.input(g.r.Range(0, 3*bs))}
	if g.r.Chance(1, 90) && o.Level == 0 {
		// legacy frames with several (nearly) incompressible 8 MiB blocks
		o.Legacy = true
		n = g.r.PickInt(16<<20, 17<<20+5)
		p.Inputs[0] = Input{Class: g.r.PickStr("random", "randtail"), Len: n, Seed: g.r.Uint64()}
		bs = 8 << 20
	}
	ref := WScript{Opts: o, In: 0, Sinks: []SinkPlan{{}}}
	if n > 0 {
		ref.Ops = []WOp{{Op: "write", N: n}}
	}
	ref.Ops = append(ref.Ops, WOp{Op: "close"})
	p.Writers = []WScript{ref}
	p.Phases = [][]string{{"W0"}}
	nv := g.r.Range(1, 3)
	var phase []string
	same := []int{0}
	for v := 0; v < nv; v++ {
		vo := o
		vo.Conc = g.r.PickInt(1, 2, 3, 4, 8, 0)
		vo.HYield = g.r.Pick(60, 25, 15)
		w := WScript{Opts: vo, In: 0, Sinks: []SinkPlan{{Yields: g.r.Pick(60, 25, 15)}}}
		if g.r.Chance(1, 4) {
			w.Ops = []WOp{{Op: "readfrom", N: n, Frag: ptrFrag(g.fragFor(n))}}
		} else {
			w.Ops = g.writeOps(n, bs, 0)
		}
		w.Ops = append(w.Ops, WOp{Op: "close"})
		if n > 0 && !o.Legacy && g.r.Chance(1, 3) {
			// the Writer object has a history: an earlier stream on another
			// sink, abandoned (Reset without Close, possibly with pending
			// bytes or blocks in flight) or closed, before the judged one
			k := minInt(n, g.r.PickInt(1, 100, bs-1, bs, bs+1, g.r.Range(1, 2*bs+1)))
			pre := []WOp{{Op: "write", N: k, Hist: true}}
			if g.r.Chance(1, 3) {
				pre = append(pre, WOp{Op: "flush"})
			}
			if g.r.Chance(1, 4) {
				pre = append(pre, WOp{Op: "close"})
			}
			pre = append(pre, WOp{Op: "reset", Sink: 1})
			if g.r.Chance(1, 2) {
				// the earlier stream ran under other settings; the judged
				// settings are applied after the Reset
				ho := vo
				ho.BS = g.r.PickInt(4, 5, 6, 7)
				ho.BSum = g.r.Bool()
				w.Opts = ho
				jo := vo
				pre = append(pre, WOp{Op: "apply", Opts: &jo})
			}
			w.Ops = append(pre, w.Ops...)
			w.Sinks = []SinkPlan{{Yields: g.r.Pick(60, 25, 15)}, w.Sinks[0]}
		}
		p.Writers = append(p.Writers, w)
		same = append(same, len(p.Writers)-1)
		name := fmt.Sprintf("W%d", len(p.Writers)-1)
		if g.r.Chance(1, 2) {
			phase = append(phase, name)
		} else {
			p.Phases = append(p.Phases, []string{name})
		}
		if vo.Conc <= 0 && p.Procs == 0 {
			p.Procs = g.r.PickInt(2, 3, 4, 16)
		}
	}
	// a client compressing other data through the same pools at the same time
	if g.r.Chance(1, 2) {
		oo := g.wopts(g.r.PickInt(1, 2, 4))
		oo.BS = o.BS
		if oo.Level > 3 {
			oo.Level = 1
		}
		w := WScript{Opts: oo, In: 1, Sinks: []SinkPlan{{}}}
		w.Ops = append(g.writeOps(p.Inputs[1].Len, bs, 0), WOp{Op: "close"})
		p.Writers = append(p.Writers, w)
		phase = append(phase, fmt.Sprintf("W%d", len(p.Writers)-1))
	}
	// package-level block calls with a schedule-dependent pooled compressor
	if g.r.Chance(2, 3) {
		var calls []BCall
		nc := g.r.Range(2, 6)
		base := []BCall{
			{In: 0, Off: 0, Len: minInt(n, g.r.Range(0, 70000))},
			{In: 1, Off: 0, Len: minInt(p.Inputs[1].Len, g.r.Range(0, 70000)), HC: true, Depth: g.r.PickInt(0, 1, 16, 512, 1<<17)},
			{In: 0, Off: minInt(n, 17), Len: minInt(maxInt(n-17, 0), g.r.Range(0, 200000)), HC: g.r.Bool(), Depth: 1 << uint(8+g.r.Range(1, 9))},
		}
		for i := 0; i < nc; i++ {
			c := base[g.r.Intn(len(base))]
			c.Obj = g.r.Pick(50, 25, 25) // package-level, or one of the client's own objects
			if g.r.Chance(1, 4) {
				// a destination that is too small: the call fails or reports
				// "incompressible", and must leave no trace in the compressor
				c.Dst = g.r.PickInt(1, 10, c.Len/4+1, c.Len/2+1)
			}
			if c.HC && g.r.Chance(1, 2) {
				c.Depth = g.r.PickInt(0, 1, 2, 16, 512, 1<<9, 1<<13, 1<<17)
			}
			calls = append(calls, c)
		}
		// each call appears at least twice overall so there is something to compare
		calls = append(calls, calls...)
		half := len(calls) / 2
		p.Blocks = []BScript{{Calls: calls[:half]}, {Calls: calls[half:]}}
		phase = append(phase, "B0", "B1")
	}
	if len(phase) > 0 {
		p.Phases = append(p.Phases, phase)
	}
	p.Same = [][]int{same}
}

func minInt(a, b int) int {
	if a < b {
		return a
	}
	return b
}

func maxInt(a, b int) int {
	if a > b {
		return a
	}
	return b
}
