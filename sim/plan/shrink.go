package plan

// Shrinks returns simpler variants of p, most aggressive first. The caller
// keeps a candidate when the same violation signature persists.
func Shrinks(p *Plan) []*Plan {
	var out []*Plan
	add := func(f func(q *Plan) bool) {
		q := p.Clone()
		if f(q) {
			out = append(out, q)
		}
	}
	// drop a client
	for pi := range p.Phases {
		for ci := range p.Phases[pi] {
			name := p.Phases[pi][ci]
			if len(p.Phases) == 1 && len(p.Phases[pi]) == 1 {
				continue
			}
			add(func(q *Plan) bool {
				if name[0] == 'W' {
					wi := int(name[1] - '0')
					for _, r := range q.Readers {
						for _, s := range r.Srcs {
							if s.Stored.Base == "sink" && s.Stored.Writer == wi {
								return false
							}
						}
					}
				}
				ph := q.Phases[pi]
				q.Phases[pi] = append(ph[:ci:ci], ph[ci+1:]...)
				var np [][]string
				for _, x := range q.Phases {
					if len(x) > 0 {
						np = append(np, x)
					}
				}
				q.Phases = np
				return true
			})
		}
	}
	// schedule
	if n := len(p.Sched.Choices); n > 0 {
		add(func(q *Plan) bool { q.Sched.Choices = nil; return true })
		add(func(q *Plan) bool { q.Sched.Choices = q.Sched.Choices[:n/2]; return true })
		add(func(q *Plan) bool { q.Sched.Choices = q.Sched.Choices[:n*3/4]; return true })
		add(func(q *Plan) bool { q.Sched.Choices = q.Sched.Choices[:n-1]; return n > 1 })
	}
	// writer scripts
	for wi := range p.Writers {
		w := &p.Writers[wi]
		for oi := len(w.Ops) - 1; oi >= 0; oi-- {
			oi := oi
			add(func(q *Plan) bool {
				ops := q.Writers[wi].Ops
				if ops[oi].Op == "reset" {
					return false
				}
				q.Writers[wi].Ops = append(ops[:oi:oi], ops[oi+1:]...)
				return true
			})
			if (w.Ops[oi].Op == "write" || w.Ops[oi].Op == "readfrom") && w.Ops[oi].N > 1 {
				add(func(q *Plan) bool { q.Writers[wi].Ops[oi].N /= 2; return true })
				add(func(q *Plan) bool { q.Writers[wi].Ops[oi].N = 1; return true })
				add(func(q *Plan) bool { q.Writers[wi].Ops[oi].N--; return true })
			}
		}
		for si := range w.Sinks {
			si := si
			if len(w.Sinks[si].Faults) > 0 {
				add(func(q *Plan) bool { q.Writers[wi].Sinks[si].Faults = nil; return true })
			}
			if w.Sinks[si].Yields > 0 {
				add(func(q *Plan) bool { q.Writers[wi].Sinks[si].Yields = 0; return true })
			}
		}
		if w.Opts.HYield > 0 {
			add(func(q *Plan) bool { q.Writers[wi].Opts.HYield = 0; return true })
		}
		if w.Opts.Level > 0 {
			add(func(q *Plan) bool { q.Writers[wi].Opts.Level = 0; return true })
		}
		if w.Opts.Conc > 2 || w.Opts.Conc <= 0 {
			add(func(q *Plan) bool { q.Writers[wi].Opts.Conc = 2; return true })
		}
		if w.Opts.BSum {
			add(func(q *Plan) bool { q.Writers[wi].Opts.BSum = false; return true })
		}
		if w.Opts.CSum {
			add(func(q *Plan) bool { q.Writers[wi].Opts.CSum = false; return true })
		}
		if w.Opts.Size != 0 {
			add(func(q *Plan) bool { q.Writers[wi].Opts.Size = 0; return true })
		}
		if w.Opts.BS > 4 {
			add(func(q *Plan) bool { q.Writers[wi].Opts.BS = 4; return true })
		}
	}
	// reader scripts
	for ri := range p.Readers {
		r := &p.Readers[ri]
		for oi := len(r.Ops) - 1; oi >= 0; oi-- {
			oi := oi
			if len(r.Ops) > 1 {
				add(func(q *Plan) bool {
					ops := q.Readers[ri].Ops
					if ops[oi].Op == "reset" {
						return false
					}
					q.Readers[ri].Ops = append(ops[:oi:oi], ops[oi+1:]...)
					return true
				})
			}
			if len(r.Ops[oi].Sizes) > 1 {
				add(func(q *Plan) bool { q.Readers[ri].Ops[oi].Sizes = q.Readers[ri].Ops[oi].Sizes[:1]; return true })
			}
		}
		for si := range r.Srcs {
			si := si
			s := &r.Srcs[si]
			if len(s.Faults) > 0 {
				add(func(q *Plan) bool { q.Readers[ri].Srcs[si].Faults = nil; return true })
			}
			for mi := range s.Stored.Mut {
				mi := mi
				add(func(q *Plan) bool {
					m := q.Readers[ri].Srcs[si].Stored.Mut
					q.Readers[ri].Srcs[si].Stored.Mut = append(m[:mi:mi], m[mi+1:]...)
					return true
				})
			}
			if s.Frag.Policy != "full" {
				add(func(q *Plan) bool { q.Readers[ri].Srcs[si].Frag.Policy = "full"; return true })
			}
			if s.EOFWithData {
				add(func(q *Plan) bool { q.Readers[ri].Srcs[si].EOFWithData = false; return true })
			}
			if s.Yields > 0 {
				add(func(q *Plan) bool { q.Readers[ri].Srcs[si].Yields = 0; return true })
			}
			if len(s.Stored.Prefix) > 0 {
				add(func(q *Plan) bool { q.Readers[ri].Srcs[si].Stored.Prefix = nil; return true })
			}
			if len(s.Stored.Tail) > 0 {
				add(func(q *Plan) bool { q.Readers[ri].Srcs[si].Stored.Tail = nil; return true })
			}
			if e := s.Stored.Enc; e != nil && len(e.Blocks) > 1 {
				add(func(q *Plan) bool {
					e := q.Readers[ri].Srcs[si].Stored.Enc
					last := e.Blocks[len(e.Blocks)-1]
					e.Blocks = e.Blocks[:len(e.Blocks)-1]
					in := &q.Inputs[q.Readers[ri].Srcs[si].Stored.In]
					if in.Class != "lit" && in.Len >= last.Len {
						in.Len -= last.Len
						return true
					}
					return false
				})
			}
		}
		if r.HYield > 0 {
			add(func(q *Plan) bool { q.Readers[ri].HYield = 0; return true })
		}
		if r.Conc > 2 || r.Conc <= 0 {
			add(func(q *Plan) bool { q.Readers[ri].Conc = 2; return true })
		}
	}
	for ci := range p.CRs {
		c := &p.CRs[ci]
		if len(c.Sizes) > 1 {
			add(func(q *Plan) bool { q.CRs[ci].Sizes = q.CRs[ci].Sizes[:len(q.CRs[ci].Sizes)-1]; return true })
			add(func(q *Plan) bool { q.CRs[ci].Sizes = q.CRs[ci].Sizes[1:]; return true })
		}
		if len(c.Faults) > 0 {
			add(func(q *Plan) bool { q.CRs[ci].Faults = nil; return true })
		}
		if c.Frag.Policy != "full" {
			add(func(q *Plan) bool { q.CRs[ci].Frag.Policy = "full"; return true })
		}
		if c.Adaptive {
			add(func(q *Plan) bool { q.CRs[ci].Adaptive = false; return true })
		}
	}
	// inputs
	for ii := range p.Inputs {
		in := &p.Inputs[ii]
		if in.Class != "lit" && in.Len > 1 {
			add(func(q *Plan) bool { q.Inputs[ii].Len /= 2; return true })
			add(func(q *Plan) bool { q.Inputs[ii].Len--; return true })
		}
		if in.Class != "lit" && in.Class != "text" && in.Class != "zeros" {
			add(func(q *Plan) bool { q.Inputs[ii].Class = "text"; return true })
		}
	}
	if p.Pool != "fresh" {
		add(func(q *Plan) bool { q.Pool = "fresh"; return true })
	}
	if len(out) > 400 {
		out = out[:400]
	}
	return out
}
