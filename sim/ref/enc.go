package ref

import "encoding/binary"

// EncBlock describes one block of a frame to build.
type EncBlock struct {
	Len int  // number of content bytes in this block
	Raw bool // store uncompressed
	// NoMatches: compressed form with one literals-only sequence.
	NoMatches bool
	MinMatch  int
}

// EncSpec describes a frame for the reference encoder.
type EncSpec struct {
	BlockMaxIdx int // 4..7
	Dependent   bool
	BlockSum    bool
	ContentSum  bool
	HasSize     bool
	Blocks      []EncBlock // must add up to len(content)
	Legacy      bool
}

func le32(b []byte, v uint32) []byte {
	return append(b, byte(v), byte(v>>8), byte(v>>16), byte(v>>24))
}

// HeaderBytes builds magic + descriptor + header checksum.
func HeaderBytes(flg, bd byte, size *uint64) []byte {
	out := le32(nil, MagicFrame)
	d := []byte{flg, bd}
	if size != nil {
		var s [8]byte
		binary.LittleEndian.PutUint64(s[:], *size)
		d = append(d, s[:]...)
	}
	out = append(out, d...)
	out = append(out, byte(Sum(d)>>8))
	return out
}

// FLG builds the flag byte for version 01.
func FLG(indep, bsum, hasSize, csum bool) byte {
	flg := byte(1 << 6)
	if indep {
		flg |= 0x20
	}
	if bsum {
		flg |= 0x10
	}
	if hasSize {
		flg |= 0x08
	}
	if csum {
		flg |= 0x04
	}
	return flg
}

// EncodeFrame builds a frame for content according to spec.
func EncodeFrame(content []byte, spec EncSpec) []byte {
	if spec.Legacy {
		out := le32(nil, MagicLegacy)
		pos := 0
		for _, bl := range spec.Blocks {
			blk := EncodeBlock(content, pos, pos+bl.Len, EncOpts{NoMatches: bl.NoMatches, MinMatch: bl.MinMatch})
			out = le32(out, uint32(len(blk)))
			out = append(out, blk...)
			pos += bl.Len
		}
		return out
	}
	var sz *uint64
	if spec.HasSize {
		v := uint64(len(content))
		sz = &v
	}
	out := HeaderBytes(FLG(!spec.Dependent, spec.BlockSum, spec.HasSize, spec.ContentSum), byte(spec.BlockMaxIdx)<<4, sz)
	pos := 0
	for _, bl := range spec.Blocks {
		var stored []byte
		raw := bl.Raw
		if !raw {
			hist := 0
			if spec.Dependent {
				hist = pos
				if hist > 65535 {
					hist = 65535
				}
			}
			stored = EncodeBlock(content, pos, pos+bl.Len, EncOpts{History: hist, NoMatches: bl.NoMatches, MinMatch: bl.MinMatch})
			if len(stored) > blockMaxFromIdx(spec.BlockMaxIdx) {
				raw = true
			}
		}
		if raw {
			stored = content[pos : pos+bl.Len]
			out = le32(out, uint32(len(stored))|0x80000000)
		} else {
			out = le32(out, uint32(len(stored)))
		}
		out = append(out, stored...)
		if spec.BlockSum {
			out = le32(out, Sum(stored))
		}
		pos += bl.Len
	}
	out = le32(out, 0)
	if spec.ContentSum {
		out = le32(out, Sum(content))
	}
	return out
}

// Skippable builds a skippable frame with the given magic nibble and payload.
func Skippable(nibble int, payload []byte) []byte {
	out := le32(nil, MagicSkipLo+uint32(nibble&15))
	out = le32(out, uint32(len(payload)))
	return append(out, payload...)
}
