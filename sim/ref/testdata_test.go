package ref

import (
	"bytes"
	"os"
	"path/filepath"
	"testing"
)

// The repository's golden .lz4 files were produced by the reference lz4
// command line tool: the reference parser must accept them and reproduce the
// original files (where those are present and non-empty in this sandbox).
func TestGoldenFiles(t *testing.T) {
	files, _ := filepath.Glob("/repo/testdata/*.lz4")
	if len(files) == 0 {
		t.Skip("no testdata")
	}
	for _, f := range files {
		b, err := os.ReadFile(f)
		if err != nil || len(b) == 0 {
			continue
		}
		p := Parse(b, ParseOpt{Strict: true})
		orig, _ := os.ReadFile(f[:len(f)-4])
		t.Logf("%s: legacy=%v err=%v field=%s blocks=%d content=%d consumed=%d/%d bsum=%v csum=%v indep=%v", filepath.Base(f), p.Legacy, p.Err, p.ErrField, len(p.Blocks), len(p.Content), p.Consumed, len(b), p.BlockSum, p.ContentSum, p.BlockIndep)
		if filepath.Base(f) == "malformed.block.lz4" {
			if p.Err == nil {
				t.Errorf("malformed file accepted")
			}
			continue
		}
		if p.Err != nil {
			t.Errorf("%s rejected: %v", f, p.Err)
			continue
		}
		if len(orig) > 0 && !bytes.Equal(orig, p.Content) {
			t.Errorf("%s: content differs from original", f)
		}
	}
}
