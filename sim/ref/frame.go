package ref

import (
	"encoding/binary"
	"errors"
	"fmt"
)

// Constants from the LZ4 frame format document.
const (
	MagicFrame    uint32 = 0x184D2204
	MagicLegacy   uint32 = 0x184C2102
	MagicSkipLo   uint32 = 0x184D2A50
	MagicSkipHi   uint32 = 0x184D2A5F
	LegacyBlockSz        = 8 << 20
)

// Field is one structural element of a stored stream.
type Field struct {
	Kind  string // magic flg bd csize dictid hc bsize bdata bsum endmark csum skmagic sklen skdata lmagic lbsize lbdata
	Off   int
	Len   int
	Block int // block index for block fields, -1 otherwise
}

// BlockInfo describes one data block of a parsed frame.
type BlockInfo struct {
	Off       int // offset of the size word
	StoredLen int
	Raw       bool
	DecLen    int
	Sum       uint32
	HasSum    bool
}

// Frame is the result of parsing one frame (after any skippable frames).
type Frame struct {
	Legacy      bool
	Skipped     int // skippable frames consumed before the frame
	FLG, BD     byte
	HeaderSeen  bool // FLG and BD were present
	Version     int
	BlockIndep  bool
	BlockSum    bool
	HasSize     bool
	ContentSum  bool
	DictID      bool
	Reserved    bool // a reserved FLG/BD bit is set
	BlockMaxIdx int
	BlockMax    int
	ContentSize uint64
	Blocks      []BlockInfo
	Content     []byte
	Consumed    int
	GoodEnd     int // end offset of the last completely parsed header/block
	Fields      []Field
	Complete    bool   // a complete frame was recognised (end mark + trailer, or legacy end of input)
	Err         error  // nil when accepted
	ErrField    string // kind of the field at which parsing failed
	// SizeMismatch is set when a declared content size differs from the
	// decoded length (reported separately: the Reader under test does not
	// treat it as an integrity field).
	SizeMismatch bool
	// KernelTotal: a legacy stream ended with the kernel-style total size word.
	KernelTotal bool
	Stats       BlockStats
	// FollowedByFrame: a legacy frame ended because another frame's magic
	// number follows (frame concatenation, which a one-frame reader need not
	// support).
	FollowedByFrame bool
}

// HeaderAnomaly reports header properties that are not integrity fields but
// that a strict decoder refuses: version != 01, reserved bits, dictionary id.
func (f *Frame) HeaderAnomaly() bool {
	return f.HeaderSeen && !f.Legacy && (f.Version != 1 || f.Reserved || f.DictID)
}

var (
	ErrTruncated   = errors.New("ref: stream ends inside a frame")
	ErrNoFrame     = errors.New("ref: no frame (empty input)")
	ErrBadMagic    = errors.New("ref: bad magic")
	ErrVersion     = errors.New("ref: unsupported version")
	ErrReserved    = errors.New("ref: reserved bit set")
	ErrBlockMaxIdx = errors.New("ref: invalid block maximum size code")
	ErrHeaderSum   = errors.New("ref: header checksum mismatch")
	ErrBlockSize   = errors.New("ref: block larger than block maximum size")
	ErrBlockSumBad = errors.New("ref: block checksum mismatch")
	ErrContentSum  = errors.New("ref: content checksum mismatch")
	ErrContentSize = errors.New("ref: content size mismatch")
	ErrDictID      = errors.New("ref: dictionary id not supported")
)

// ParseOpt selects the strictness.
type ParseOpt struct {
	// Strict refuses version != 01, reserved bits, dictionary ids and content
	// size mismatches (what an emitted frame must satisfy). Non-strict records
	// them in the Frame and carries on the way the flags say.
	Strict bool
	// Prefix makes a truncated stream a non-error: the complete blocks seen so
	// far are returned with Complete == false.
	Prefix bool
	// NoContent skips building Content for huge frames (block structure and
	// checksums are still verified).
	NoContent bool
}

func blockMaxFromIdx(i int) int {
	switch i {
	case 4:
		return 64 << 10
	case 5:
		return 256 << 10
	case 6:
		return 1 << 20
	case 7:
		return 4 << 20
	}
	return 0
}

// Parse parses skippable frames followed by one data frame from b.
func Parse(b []byte, opt ParseOpt) *Frame {
	f := &Frame{}
	pos := 0
	fail := func(field string, err error) *Frame {
		f.Err = err
		f.ErrField = field
		f.Consumed = pos
		if opt.Prefix && errors.Is(err, ErrTruncated) {
			f.Err = nil
		}
		return f
	}
	need := func(n int) bool { return len(b)-pos >= n }
	add := func(kind string, n, blk int) {
		if len(f.Fields) > 1<<16 && (kind == "skmagic" || kind == "sklen" || kind == "skdata") {
			return // very long runs of skippable frames: the map stays bounded
		}
		f.Fields = append(f.Fields, Field{kind, pos, n, blk})
	}
	var magic uint32
	for {
		if len(b) == pos && pos == 0 {
			return fail("magic", ErrNoFrame)
		}
		if !need(4) {
			if len(b) == pos {
				// only skippable frames, then a clean end
				return fail("magic", ErrNoFrame)
			}
			add("magic", len(b)-pos, -1)
			return fail("magic", ErrTruncated)
		}
		magic = binary.LittleEndian.Uint32(b[pos:])
		if magic >= MagicSkipLo && magic <= MagicSkipHi {
			add("skmagic", 4, -1)
			pos += 4
			if !need(4) {
				add("sklen", len(b)-pos, -1)
				return fail("sklen", ErrTruncated)
			}
			n := int(binary.LittleEndian.Uint32(b[pos:]))
			add("sklen", 4, -1)
			pos += 4
			if !need(n) {
				add("skdata", len(b)-pos, -1)
				return fail("skdata", ErrTruncated)
			}
			add("skdata", n, -1)
			pos += n
			f.Skipped++
			continue
		}
		break
	}
	switch magic {
	case MagicLegacy:
		add("lmagic", 4, -1)
		pos += 4
		return parseLegacy(f, b, pos, opt)
	case MagicFrame:
		add("magic", 4, -1)
		pos += 4
	default:
		add("magic", 4, -1)
		return fail("magic", ErrBadMagic)
	}
	// Descriptor.
	dstart := pos
	if !need(2) {
		add("flg", len(b)-pos, -1)
		return fail("flg", ErrTruncated)
	}
	f.FLG, f.BD = b[pos], b[pos+1]
	f.HeaderSeen = true
	add("flg", 1, -1)
	pos++
	add("bd", 1, -1)
	pos++
	f.Version = int(f.FLG >> 6)
	f.BlockIndep = f.FLG&0x20 != 0
	f.BlockSum = f.FLG&0x10 != 0
	f.HasSize = f.FLG&0x08 != 0
	f.ContentSum = f.FLG&0x04 != 0
	f.Reserved = f.FLG&0x02 != 0 || f.BD&0x8F != 0
	f.DictID = f.FLG&0x01 != 0
	f.BlockMaxIdx = int(f.BD >> 4 & 7)
	f.BlockMax = blockMaxFromIdx(f.BlockMaxIdx)
	if opt.Strict {
		if f.Version != 1 {
			return fail("flg", ErrVersion)
		}
		if f.Reserved {
			return fail("flg", ErrReserved)
		}
	}
	if f.HasSize {
		if !need(8) {
			add("csize", len(b)-pos, -1)
			return fail("csize", ErrTruncated)
		}
		f.ContentSize = binary.LittleEndian.Uint64(b[pos:])
		add("csize", 8, -1)
		pos += 8
	}
	if f.DictID {
		if opt.Strict {
			return fail("flg", ErrDictID)
		}
		// Non-strict: the anomaly is recorded; the layout is parsed the way
		// the format says (four more bytes).
		if !need(4) {
			add("dictid", len(b)-pos, -1)
			return fail("dictid", ErrTruncated)
		}
		add("dictid", 4, -1)
		pos += 4
	}
	if !need(1) {
		add("hc", 0, -1)
		return fail("hc", ErrTruncated)
	}
	hc := b[pos]
	want := byte(Sum(b[dstart:pos]) >> 8)
	add("hc", 1, -1)
	pos++
	if hc != want {
		return fail("hc", ErrHeaderSum)
	}
	if f.BlockMax == 0 {
		return fail("bd", ErrBlockMaxIdx)
	}
	f.GoodEnd = pos
	// Blocks.
	var window []byte // last <=64 KiB of output for dependent blocks
	var hashParts [][]byte
	total := 0
	for bi := 0; ; bi++ {
		if !need(4) {
			add("bsize", len(b)-pos, bi)
			return fail("bsize", ErrTruncated)
		}
		w := binary.LittleEndian.Uint32(b[pos:])
		if w == 0 {
			add("endmark", 4, -1)
			pos += 4
			break
		}
		blk := BlockInfo{Off: pos, Raw: w&0x80000000 != 0, StoredLen: int(w & 0x7FFFFFFF)}
		add("bsize", 4, bi)
		pos += 4
		if blk.StoredLen > f.BlockMax {
			return fail("bsize", ErrBlockSize)
		}
		if !need(blk.StoredLen) {
			add("bdata", len(b)-pos, bi)
			return fail("bdata", ErrTruncated)
		}
		stored := b[pos : pos+blk.StoredLen]
		add("bdata", blk.StoredLen, bi)
		pos += blk.StoredLen
		if f.BlockSum {
			if !need(4) {
				add("bsum", len(b)-pos, bi)
				return fail("bsum", ErrTruncated)
			}
			blk.Sum = binary.LittleEndian.Uint32(b[pos:])
			blk.HasSum = true
			add("bsum", 4, bi)
			pos += 4
			if Sum(stored) != blk.Sum {
				pos -= 4
				return fail("bsum", ErrBlockSumBad)
			}
		}
		var dec []byte
		if blk.Raw {
			dec = stored
		} else {
			var dict []byte
			if !f.BlockIndep {
				dict = window
			}
			var err error
			dec, err = DecodeBlockStats(stored, dict, f.BlockMax, &f.Stats)
			if err != nil {
				pos = blk.Off + 4
				return fail("bdata", fmt.Errorf("block %d: %w", bi, err))
			}
		}
		blk.DecLen = len(dec)
		total += len(dec)
		f.Blocks = append(f.Blocks, blk)
		if !opt.NoContent {
			f.Content = append(f.Content, dec...)
		} else if f.ContentSum {
			hashParts = append(hashParts, dec)
		}
		if !f.BlockIndep {
			window = append(window, dec...)
			if len(window) > 65536 {
				window = append([]byte(nil), window[len(window)-65536:]...)
			}
		}
		f.Consumed = pos
		f.GoodEnd = pos
	}
	if f.ContentSum {
		if !need(4) {
			add("csum", len(b)-pos, -1)
			return fail("csum", ErrTruncated)
		}
		cs := binary.LittleEndian.Uint32(b[pos:])
		add("csum", 4, -1)
		var got uint32
		if opt.NoContent {
			var all []byte
			for _, p := range hashParts {
				all = append(all, p...)
			}
			got = Sum(all)
		} else {
			got = Sum(f.Content)
		}
		if got != cs {
			return fail("csum", ErrContentSum)
		}
		pos += 4
	}
	f.Consumed = pos
	if f.HasSize && f.ContentSize != uint64(total) {
		// Reported, not fatal: the declared size is whatever the producer was
		// configured with; callers compare it with the configuration.
		f.SizeMismatch = true
	}
	f.Complete = true
	return f
}

// parseLegacy parses the blocks of a legacy frame: size-prefixed compressed
// blocks until the end of the input or another magic number. A legacy magic in
// the place of a block size starts a concatenated legacy frame.
func parseLegacy(f *Frame, b []byte, pos int, opt ParseOpt) *Frame {
	f.Legacy = true
	f.BlockMax = LegacyBlockSz
	f.BlockIndep = true
	fail := func(field string, err error) *Frame {
		f.Err = err
		f.ErrField = field
		if opt.Prefix && errors.Is(err, ErrTruncated) {
			f.Err = nil
		}
		return f
	}
	bi := 0
	total := 0
	for {
		f.Consumed = pos
		if pos == len(b) {
			f.Complete = true
			return f
		}
		if len(b)-pos < 4 {
			f.Fields = append(f.Fields, Field{"lbsize", pos, len(b) - pos, bi})
			return fail("lbsize", ErrTruncated)
		}
		w := binary.LittleEndian.Uint32(b[pos:])
		if w == MagicLegacy {
			if len(f.Fields) <= 1<<16 {
				f.Fields = append(f.Fields, Field{"lmagic", pos, 4, -1})
			}
			pos += 4
			continue
		}
		if w == MagicFrame || (w >= MagicSkipLo && w <= MagicSkipHi) {
			// another frame follows: the legacy frame ends here
			f.Complete = true
			f.FollowedByFrame = true
			return f
		}
		if w == uint32(total) {
			// Linux-kernel style legacy stream: the total uncompressed size
			// follows the last block.
			f.Fields = append(f.Fields, Field{"lktotal", pos, 4, -1})
			pos += 4
			f.Consumed = pos
			f.GoodEnd = pos
			f.Complete = true
			f.KernelTotal = true
			return f
		}
		f.Fields = append(f.Fields, Field{"lbsize", pos, 4, bi})
		blk := BlockInfo{Off: pos, StoredLen: int(w)}
		pos += 4
		if w > uint32(LegacyBlockSz+LegacyBlockSz/255+16) {
			return fail("lbsize", ErrBlockSize)
		}
		if len(b)-pos < int(w) {
			f.Fields = append(f.Fields, Field{"lbdata", pos, len(b) - pos, bi})
			return fail("lbdata", ErrTruncated)
		}
		f.Fields = append(f.Fields, Field{"lbdata", pos, int(w), bi})
		dec, err := DecodeBlock(b[pos:pos+int(w)], nil, LegacyBlockSz)
		if err != nil {
			return fail("lbdata", fmt.Errorf("legacy block %d: %w", bi, err))
		}
		pos += int(w)
		blk.DecLen = len(dec)
		total += len(dec)
		f.Blocks = append(f.Blocks, blk)
		if !opt.NoContent {
			f.Content = append(f.Content, dec...)
		}
		f.GoodEnd = pos
		bi++
	}
}

// LegacyFullBlocks checks the legacy rule that every block but the last holds
// exactly 8 MiB of content.
func (f *Frame) LegacyFullBlocks() bool {
	for i, b := range f.Blocks {
		if i < len(f.Blocks)-1 && b.DecLen != LegacyBlockSz {
			return false
		}
	}
	return true
}
