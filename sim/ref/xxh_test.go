package ref

import "testing"

func TestXXH32Vectors(t *testing.T) {
	cases := []struct {
		s    string
		seed uint32
		want uint32
	}{
		{"", 0, 0x02CC5D05},
		{"a", 0, 0x550D7456},
		{"abc", 0, 0x32D153FF},
		{"Nobody inspects the spammish repetition", 0, 0xE2293B2F},
		{"", 1, 0x0B2CB792},
	}
	for _, c := range cases {
		if got := XXH32([]byte(c.s), c.seed); got != c.want {
			t.Errorf("XXH32(%q,%d)=%08x want %08x", c.s, c.seed, got, c.want)
		}
	}
}

func TestForceSum(t *testing.T) {
	for _, n := range []int{4, 8, 12, 16, 20, 32, 36, 48, 65532, 65536, 100} {
		b := make([]byte, n)
		for i := range b {
			b[i] = byte(i * 7)
		}
		for _, tgt := range []uint32{0, 1, 0xdeadbeef} {
			ForceSum(b, tgt)
			if got := Sum(b); got != tgt {
				t.Errorf("n=%d target=%x got %x", n, tgt, got)
			}
		}
	}
}
