package ref

import (
	"bytes"
	"testing"
)

// Hand-made vectors, written from the format documents.
func TestDecodeBlockVectors(t *testing.T) {
	cases := []struct {
		name string
		src  []byte
		dict []byte
		max  int
		want string
		err  bool
	}{
		{"literals only", []byte{0x30, 'a', 'b', 'c'}, nil, 10, "abc", false},
		{"overlap run", []byte{0x11, 'a', 1, 0, 0x00}, nil, 10, "aaaaaa", false},
		{"end after match", []byte{0x11, 'a', 1, 0}, nil, 10, "aaaaaa", false},
		{"zero offset", []byte{0x11, 'a', 0, 0}, nil, 10, "", true},
		{"far offset", []byte{0x11, 'a', 2, 0}, nil, 10, "", true},
		{"dict", []byte{0x00, 3, 0, 0x00}, []byte("xyz"), 10, "xyzx", false},
		{"dict straddle", []byte{0x12, 'a', 3, 0, 0x00}, []byte("xyz"), 10, "ayzayza", false},
		{"overflow", []byte{0x30, 'a', 'b', 'c'}, nil, 2, "", true},
		{"trunc lit", []byte{0x30, 'a', 'b'}, nil, 10, "", true},
		{"trunc offset", []byte{0x11, 'a', 1}, nil, 10, "", true},
		{"long lit", append([]byte{0xF0, 5}, bytes.Repeat([]byte{'z'}, 20)...), nil, 30, string(bytes.Repeat([]byte{'z'}, 20)), false},
		{"empty", nil, nil, 10, "", true},
		{"token zero", []byte{0x00}, nil, 10, "", false},
	}
	for _, c := range cases {
		got, err := DecodeBlock(c.src, c.dict, c.max)
		if (err != nil) != c.err {
			t.Errorf("%s: err=%v want err=%v", c.name, err, c.err)
			continue
		}
		if err == nil && string(got) != c.want {
			t.Errorf("%s: got %q want %q", c.name, got, c.want)
		}
	}
}

func content(n int, seed uint32) []byte {
	b := make([]byte, n)
	x := seed*2654435761 + 1
	for i := range b {
		x ^= x << 13
		x ^= x >> 17
		x ^= x << 5
		if i > 100 && x%7 < 3 {
			// copy from the past to create matches
			d := int(x>>8)%100 + 1
			b[i] = b[i-d]
		} else {
			b[i] = byte('a' + x%16)
		}
	}
	return b
}

func TestFrameRoundTrip(t *testing.T) {
	for _, n := range []int{0, 1, 5, 12, 13, 100, 65536, 65537, 200000} {
		c := content(n, uint32(n))
		for _, dep := range []bool{false, true} {
			for _, sums := range []bool{false, true} {
				var blocks []EncBlock
				rem := n
				for i := 0; rem > 0; i++ {
					l := 65536
					if i%3 == 1 {
						l = 1000
					}
					if l > rem {
						l = rem
					}
					blocks = append(blocks, EncBlock{Len: l, Raw: i%4 == 2})
					rem -= l
				}
				fr := EncodeFrame(c, EncSpec{BlockMaxIdx: 4, Dependent: dep, BlockSum: sums, ContentSum: sums, HasSize: sums, Blocks: blocks})
				p := Parse(fr, ParseOpt{Strict: true})
				if p.Err != nil || !p.Complete {
					t.Fatalf("n=%d dep=%v sums=%v: %v at %s", n, dep, sums, p.Err, p.ErrField)
				}
				if !bytes.Equal(p.Content, c) {
					t.Fatalf("n=%d dep=%v sums=%v: content differs", n, dep, sums)
				}
				if p.Consumed != len(fr) {
					t.Fatalf("consumed %d of %d", p.Consumed, len(fr))
				}
				// every strict prefix is truncated
				for cut := 1; cut < len(fr); cut += 1 + len(fr)/300 {
					q := Parse(fr[:cut], ParseOpt{})
					if q.Err == nil {
						t.Fatalf("n=%d cut=%d accepted", n, cut)
					}
				}
			}
		}
	}
}

// The example frame of the specification's appendix style: magic, FLG 0x64
// (version 01, independent, content checksum), BD 0x40, HC 0xA7 — the
// descriptor "64 40 a7" is also a vector in the upstream test suite.
func TestHeaderChecksumVector(t *testing.T) {
	h := HeaderBytes(0x64, 0x40, nil)
	if h[6] != 0xA7 {
		t.Fatalf("hc=%02x want a7", h[6])
	}
	h = HeaderBytes(0x64, 0x70, nil)
	if h[6] != 0xB9 {
		t.Fatalf("hc=%02x want b9", h[6])
	}
}

func TestLegacyAndSkippable(t *testing.T) {
	c := content(5000, 9)
	fr := EncodeFrame(c, EncSpec{Legacy: true, Blocks: []EncBlock{{Len: 5000}}})
	p := Parse(append(Skippable(3, []byte("hello")), fr...), ParseOpt{Strict: true})
	if p.Err != nil || !p.Legacy || p.Skipped != 1 || !bytes.Equal(p.Content, c) {
		t.Fatalf("legacy: %+v", p.Err)
	}
	bad := le32(nil, 0x184D2A60)
	if q := Parse(bad, ParseOpt{}); q.Err != ErrBadMagic {
		t.Fatalf("0x184D2A60 must be a bad magic, got %v", q.Err)
	}
}
