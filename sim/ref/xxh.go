// Package ref holds the independent reference models used as oracles. Nothing
// here imports the code under test; everything is written from the public
// format documents (xxHash spec, LZ4 block format, LZ4 frame format).
package ref

import "encoding/binary"

const (
	p32_1 uint32 = 2654435761
	p32_2 uint32 = 2246822519
	p32_3 uint32 = 3266489917
	p32_4 uint32 = 668265263
	p32_5 uint32 = 374761393
)

func rotl(x uint32, r uint) uint32 { return x<<r | x>>(32-r) }

func xround(acc, in uint32) uint32 {
	acc += in * p32_2
	return rotl(acc, 13) * p32_1
}

// XXH32 is the reference XXH32 with an arbitrary seed.
func XXH32(b []byte, seed uint32) uint32 {
	n := len(b)
	var h uint32
	p := 0
	if n >= 16 {
		v1 := seed + p32_1 + p32_2
		v2 := seed + p32_2
		v3 := seed
		v4 := seed - p32_1
		for ; p+16 <= n; p += 16 {
			v1 = xround(v1, binary.LittleEndian.Uint32(b[p:]))
			v2 = xround(v2, binary.LittleEndian.Uint32(b[p+4:]))
			v3 = xround(v3, binary.LittleEndian.Uint32(b[p+8:]))
			v4 = xround(v4, binary.LittleEndian.Uint32(b[p+12:]))
		}
		h = rotl(v1, 1) + rotl(v2, 7) + rotl(v3, 12) + rotl(v4, 18)
	} else {
		h = seed + p32_5
	}
	h += uint32(n)
	for ; p+4 <= n; p += 4 {
		h += binary.LittleEndian.Uint32(b[p:]) * p32_3
		h = rotl(h, 17) * p32_4
	}
	for ; p < n; p++ {
		h += uint32(b[p]) * p32_5
		h = rotl(h, 11) * p32_1
	}
	h ^= h >> 15
	h *= p32_2
	h ^= h >> 13
	h *= p32_3
	h ^= h >> 16
	return h
}

// Sum is XXH32 with seed 0, the variant every LZ4 frame field uses.
func Sum(b []byte) uint32 { return XXH32(b, 0) }

func modinv32(a uint32) uint32 {
	// a odd. Newton iteration for the inverse modulo 2^32.
	x := a
	for i := 0; i < 5; i++ {
		x *= 2 - a*x
	}
	return x
}

func unavalanche(h uint32) uint32 {
	h ^= h >> 16
	h *= modinv32(p32_3)
	h ^= h >> 13
	h ^= h >> 26
	h *= modinv32(p32_2)
	h ^= h >> 15
	h ^= h >> 30
	return h
}

// ForceSum overwrites the last four bytes of b (len(b) >= 4 and a multiple
// of 4) so that Sum(b) == target. It relies on the fact that every step that
// absorbs the last 32-bit word, and the final avalanche, are bijections.
func ForceSum(b []byte, target uint32) {
	n := len(b)
	if n < 4 || n%4 != 0 {
		panic("ForceSum: length must be a positive multiple of 4")
	}
	t := unavalanche(target)
	if n%16 == 0 {
		// The last word is absorbed by lane 4 of the last stripe.
		var seed uint32
		v1 := seed + p32_1 + p32_2
		v2 := seed + p32_2
		v3 := seed
		v4 := seed - p32_1
		p := 0
		for ; p+16 < n; p += 16 {
			v1 = xround(v1, binary.LittleEndian.Uint32(b[p:]))
			v2 = xround(v2, binary.LittleEndian.Uint32(b[p+4:]))
			v3 = xround(v3, binary.LittleEndian.Uint32(b[p+8:]))
			v4 = xround(v4, binary.LittleEndian.Uint32(b[p+12:]))
		}
		v1 = xround(v1, binary.LittleEndian.Uint32(b[p:]))
		v2 = xround(v2, binary.LittleEndian.Uint32(b[p+4:]))
		v3 = xround(v3, binary.LittleEndian.Uint32(b[p+8:]))
		// t == rotl(v1,1)+rotl(v2,7)+rotl(v3,12)+rotl(v4new,18) + n
		r := t - uint32(n) - rotl(v1, 1) - rotl(v2, 7) - rotl(v3, 12)
		v4new := rotl(r, 32-18)
		x := rotl(v4new*modinv32(p32_1), 32-13) // == v4 + w*p32_2
		w := (x - v4) * modinv32(p32_2)
		binary.LittleEndian.PutUint32(b[n-4:], w)
		return
	}
	var h uint32
	p := 0
	if n >= 16 {
		var seed uint32
		v1 := seed + p32_1 + p32_2
		v2 := seed + p32_2
		v3 := seed
		v4 := seed - p32_1
		for ; p+16 <= n; p += 16 {
			v1 = xround(v1, binary.LittleEndian.Uint32(b[p:]))
			v2 = xround(v2, binary.LittleEndian.Uint32(b[p+4:]))
			v3 = xround(v3, binary.LittleEndian.Uint32(b[p+8:]))
			v4 = xround(v4, binary.LittleEndian.Uint32(b[p+12:]))
		}
		h = rotl(v1, 1) + rotl(v2, 7) + rotl(v3, 12) + rotl(v4, 18)
	} else {
		h = p32_5
	}
	h += uint32(n)
	for ; p+4 < n; p += 4 {
		h += binary.LittleEndian.Uint32(b[p:]) * p32_3
		h = rotl(h, 17) * p32_4
	}
	// want: rotl(h + w*p3, 17) * p4 == t
	t *= modinv32(p32_4)
	t = rotl(t, 32-17)
	w := (t - h) * modinv32(p32_3)
	binary.LittleEndian.PutUint32(b[n-4:], w)
}
