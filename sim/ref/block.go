package ref

import (
	"encoding/binary"
	"errors"
)

// Errors of the reference block decoder. They are distinct so that oracles and
// reports can say what exactly was wrong with a block.
var (
	ErrBlockEmpty     = errors.New("ref: empty block")
	ErrBlockTruncated = errors.New("ref: truncated sequence")
	ErrBlockZeroOff   = errors.New("ref: zero offset")
	ErrBlockFarOff    = errors.New("ref: offset before start of dictionary")
	ErrBlockOverflow  = errors.New("ref: output larger than allowed")
)

// DecodeBlock decodes one LZ4 block, written from the block format document.
// dict is the window preceding the block (may be nil), max the largest output
// accepted. Acceptance is the permissive reading: a block may end right after
// the literals of its last sequence (whatever the unused match nibble holds)
// or right after a match; everything the format leaves undefined (zero
// offset, offset reaching before the dictionary, truncated sequence, output
// larger than max) is an error.
func DecodeBlock(src, dict []byte, max int) ([]byte, error) {
	return DecodeBlockStats(src, dict, max, nil)
}

// BlockStats counts features of the matches of decoded blocks (reach probes).
type BlockStats struct {
	Matches     int
	DictMatches int // matches that start in the dictionary (cross-block)
	Off65535    int // matches at the maximum offset
	Overlap     int // offset < match length
}

// DecodeBlockStats is DecodeBlock that also accumulates match statistics.
func DecodeBlockStats(src, dict []byte, max int, st *BlockStats) ([]byte, error) {
	if len(src) == 0 {
		return nil, ErrBlockEmpty
	}
	out := make([]byte, 0, 256)
	si := 0
	for si < len(src) {
		tok := src[si]
		si++
		ll := int(tok >> 4)
		if ll == 15 {
			for {
				if si >= len(src) {
					return nil, ErrBlockTruncated
				}
				b := src[si]
				si++
				ll += int(b)
				if ll > 1<<30 {
					return nil, ErrBlockOverflow
				}
				if b != 255 {
					break
				}
			}
		}
		if ll > len(src)-si {
			return nil, ErrBlockTruncated
		}
		if len(out)+ll > max {
			return nil, ErrBlockOverflow
		}
		out = append(out, src[si:si+ll]...)
		si += ll
		if si == len(src) {
			return out, nil
		}
		if len(src)-si < 2 {
			return nil, ErrBlockTruncated
		}
		off := int(binary.LittleEndian.Uint16(src[si:]))
		si += 2
		if off == 0 {
			return nil, ErrBlockZeroOff
		}
		ml := int(tok & 15)
		if ml == 15 {
			for {
				if si >= len(src) {
					return nil, ErrBlockTruncated
				}
				b := src[si]
				si++
				ml += int(b)
				if ml > 1<<30 {
					return nil, ErrBlockOverflow
				}
				if b != 255 {
					break
				}
			}
		}
		ml += 4
		if off > len(out)+len(dict) {
			return nil, ErrBlockFarOff
		}
		if len(out)+ml > max {
			return nil, ErrBlockOverflow
		}
		if st != nil {
			st.Matches++
			if off > len(out) {
				st.DictMatches++
			}
			if off == 65535 {
				st.Off65535++
			}
			if off < ml {
				st.Overlap++
			}
		}
		for i := 0; i < ml; i++ {
			p := len(out) - off
			if p < 0 {
				out = append(out, dict[len(dict)+p])
			} else {
				out = append(out, out[p])
			}
		}
	}
	return out, nil
}

// EncOpts steers the reference block encoder.
type EncOpts struct {
	// History is the number of bytes before the block start (in the same
	// backing array) that matches may reference: 0 for independent blocks.
	History int
	// MinMatch lets a caller make the encoder lazier (longer minimal match
	// length) to vary the shape of the output; 0 means 4.
	MinMatch int
	// NoMatches emits one literals-only sequence.
	NoMatches bool
}

// EncodeBlock compresses all[start:end] into one LZ4 block obeying the strict
// end-of-block rules (last five bytes are literals, the last match starts at
// least twelve bytes before the end). Matches may reach up to opts.History
// bytes before start, never farther than 65535 bytes back. The matcher is a
// single-probe hash table: simple, deterministic, independent of the code
// under test.
func EncodeBlock(all []byte, start, end int, opts EncOpts) []byte {
	n := end - start
	out := make([]byte, 0, n/2+16)
	minMatch := opts.MinMatch
	if minMatch < 4 {
		minMatch = 4
	}
	anchor := start
	emit := func(litEnd, off, ml int) {
		// literals all[anchor:litEnd], then match (off, ml) unless ml == 0
		ll := litEnd - anchor
		var tok byte
		if ll >= 15 {
			tok = 15 << 4
		} else {
			tok = byte(ll) << 4
		}
		if ml > 0 {
			if ml-4 >= 15 {
				tok |= 15
			} else {
				tok |= byte(ml - 4)
			}
		}
		out = append(out, tok)
		if ll >= 15 {
			r := ll - 15
			for ; r >= 255; r -= 255 {
				out = append(out, 255)
			}
			out = append(out, byte(r))
		}
		out = append(out, all[anchor:litEnd]...)
		if ml > 0 {
			out = append(out, byte(off), byte(off>>8))
			if ml-4 >= 15 {
				r := ml - 4 - 15
				for ; r >= 255; r -= 255 {
					out = append(out, 255)
				}
				out = append(out, byte(r))
			}
		}
	}
	if !opts.NoMatches && n >= 13 {
		const hbits = 16
		var table [1 << hbits]int32 // position+1 relative to (start-History)
		base := start - opts.History
		if base < 0 {
			base = 0
		}
		hash := func(p int) uint32 {
			return (binary.LittleEndian.Uint32(all[p:]) * 2654435761) >> (32 - hbits)
		}
		// Prime the table with the history so cross-block matches are found.
		hs := base
		if start-hs > 65535 {
			hs = start - 65535
		}
		for p := hs; p < start && p+4 <= end; p++ {
			table[hash(p)] = int32(p - base + 1)
		}
		matchLimit := end - 5 // matches must end at or before this
		lastStart := end - 12 // a match may not start after this
		p := start
		for p <= lastStart {
			h := hash(p)
			cand := int(table[h]) - 1 + base
			table[h] = int32(p - base + 1)
			if cand >= base && cand < p && p-cand <= 65535 &&
				binary.LittleEndian.Uint32(all[cand:]) == binary.LittleEndian.Uint32(all[p:]) {
				ml := 4
				for p+ml < matchLimit && all[cand+ml] == all[p+ml] {
					ml++
				}
				if p+ml > matchLimit {
					ml = matchLimit - p
				}
				if ml >= minMatch {
					emit(p, p-cand, ml)
					// index a few positions inside the match
					for q := p + 1; q < p+ml && q <= lastStart; q += 3 {
						table[hash(q)] = int32(q - base + 1)
					}
					p += ml
					anchor = p
					continue
				}
			}
			p++
		}
	}
	emit(end, 0, 0)
	return out
}
