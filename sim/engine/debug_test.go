package engine

import (
	"fmt"
	"os"
	"testing"

	"verif/sim/plan"
)

func TestDebugPlan(t *testing.T) {
	f := os.Getenv("SIM_DEBUG")
	if f == "" {
		t.Skip()
	}
	b, _ := os.ReadFile(f)
	p, err := plan.Parse(b)
	if err != nil {
		t.Fatal(err)
	}
	ex := &Executor{T: t}
	out := ex.Execute(p)
	sp := out.World.pool
	fmt.Printf("gets=%d puts=%d reissued=%d outstanding=%d peak=%d steps=%d spawned=%d\n", sp.Gets, sp.Puts, sp.Reissued, sp.Outstanding, sp.Peak, out.Steps, out.Spawned)
	for ri, r := range out.R {
		for si, st := range r.Stored {
			v := verdictOf(st)
			fmt.Printf("R%d stored %d: len=%d legacy=%v valid=%v trunc=%v err=%v field=%s consumed=%d content=%d blocks=%d kernel=%v\n", ri, si, len(st), v.f.Legacy, v.valid, v.trunc, v.f.Err, v.f.ErrField, v.f.Consumed, len(v.content), len(v.f.Blocks), v.f.KernelTotal)
		}
		for _, o := range r.Ops {
			fmt.Printf("op %s n=%d err=%s calls=%d consumed=%d\n", o.Op, o.N, errStr(o.Err), o.Calls, o.Consumed)
		}
	}
	for _, v := range Judge(p, out) {
		fmt.Println(v.Sig(), "::", v.Detail)
	}
}
