//go:build race

package engine

import (
	"runtime"
	"unsafe"
)

const RaceBuild = true

func raceDisable()                           { runtime.RaceDisable() }
func raceEnable()                            { runtime.RaceEnable() }
func raceErrors() int                        { return runtime.RaceErrors() }
func raceAcquire(p unsafe.Pointer)           { runtime.RaceAcquire(p) }
func raceReleaseMerge(p unsafe.Pointer)      { runtime.RaceReleaseMerge(p) }
func raceWriteRange(p unsafe.Pointer, n int) { runtime.RaceWriteRange(p, n) }
func raceReadRange(p unsafe.Pointer, n int)  { runtime.RaceReadRange(p, n) }
