package engine

import (
	"bytes"
	"encoding/binary"
	"fmt"

	lz4 "github.com/pierrec/lz4/v4"

	"verif/sim/plan"
	"verif/sim/ref"
)

// LibFrame builds a frame with the library's own sequential Writer, outside
// the scheduled part of a run (used as stored data for Reader scenarios).
func LibFrame(o plan.WOpts, input []byte, chunk int) ([]byte, error) {
	var buf bytes.Buffer
	zw := lz4.NewWriter(&buf)
	var opts []lz4.Option
	if !o.Default {
		if o.BS != 0 {
			opts = append(opts, lz4.BlockSizeOption(blockSizeOf(o.BS)))
		}
		opts = append(opts, lz4.BlockChecksumOption(o.BSum), lz4.ChecksumOption(o.CSum))
		switch {
		case o.Size == -1:
			opts = append(opts, lz4.SizeOption(uint64(len(input))))
		case o.Size > 0:
			opts = append(opts, lz4.SizeOption(uint64(o.Size)))
		}
		opts = append(opts, lz4.CompressionLevelOption(levelOf(o.Level)), lz4.ConcurrencyOption(1))
		if o.Legacy {
			opts = append(opts, lz4.LegacyOption(true))
		}
	}
	if err := zw.Apply(opts...); err != nil {
		return nil, err
	}
	if chunk <= 0 {
		chunk = len(input)
	}
	for p := 0; p < len(input); p += chunk {
		e := p + chunk
		if e > len(input) {
			e = len(input)
		}
		if _, err := zw.Write(input[p:e]); err != nil {
			return nil, err
		}
	}
	if err := zw.Close(); err != nil {
		return nil, err
	}
	return buf.Bytes(), nil
}

func le32bytes(v uint32) []byte { return []byte{byte(v), byte(v >> 8), byte(v >> 16), byte(v >> 24)} }

func encSpec(e *plan.EncPlan) ref.EncSpec {
	s := ref.EncSpec{BlockMaxIdx: e.BS, Dependent: e.Dependent, BlockSum: e.BSum, ContentSum: e.CSum, HasSize: e.HasSize, Legacy: e.Legacy}
	for _, b := range e.Blocks {
		s.Blocks = append(s.Blocks, ref.EncBlock{Len: b.Len, Raw: b.Raw, NoMatches: b.NoMatches, MinMatch: b.MinMatch})
	}
	return s
}

func renderHostile(h *plan.Hostile, input []byte) []byte {
	var out []byte
	var prev []byte
	ipos := 0
	for _, it := range h.Items {
		rep := it.Rep
		if rep <= 0 {
			rep = 1
		}
		switch it.Kind {
		case "word":
			var w [4]byte
			binary.LittleEndian.PutUint32(w[:], it.Val)
			if rep > 1 {
				out = append(out, bytes.Repeat(w[:], rep)...)
			} else {
				out = append(out, w[:]...)
			}
		case "bytes":
			for i := 0; i < rep; i++ {
				out = append(out, it.Data...)
			}
			prev = it.Data
		case "header":
			var sz *uint64
			if it.Has {
				v := it.Size
				sz = &v
			}
			h := ref.HeaderBytes(byte(it.Val), byte(it.Val>>8), sz)
			h[len(h)-1] ^= byte(it.Val2)
			out = append(out, h...)
		case "rawblock":
			n := it.Len
			if ipos+n > len(input) {
				n = len(input) - ipos
			}
			out = append(out, byte(n), byte(n>>8), byte(n>>16), byte(n>>24)|0x80)
			out = append(out, input[ipos:ipos+n]...)
			ipos += n
		case "sumprev":
			// the XXH32 of the previous "bytes" item (a correct block checksum)
			// is appended by the caller through prevBytes
			out = append(out, le32bytes(ref.Sum(prev))...)
		case "fill":
			r := plan.NewRand(it.Seed)
			for i := 0; i < it.Len; i++ {
				out = append(out, byte(r.Uint64()))
			}
		}
	}
	return out
}

// BuildStored materialises a Stored description. sinkOf resolves "sink" bases.
func BuildStored(st *plan.Stored, inputs [][]byte, sinkOf func(w, s int) []byte) (final, base []byte, err error) {
	var b []byte
	switch st.Base {
	case "sink":
		b = append([]byte(nil), sinkOf(st.Writer, st.SinkIdx)...)
	case "lz4w":
		b, err = LibFrame(*st.Opts, inputs[st.In], st.Chunk)
		if err != nil {
			return nil, nil, fmt.Errorf("building stored frame: %w", err)
		}
	case "refenc":
		b = ref.EncodeFrame(inputs[st.In], encSpec(st.Enc))
	case "raw":
		b = append([]byte(nil), inputs[st.In]...)
	case "hostile":
		var in []byte
		if st.In < len(inputs) {
			in = inputs[st.In]
		}
		b = renderHostile(st.Hostile, in)
	default:
		return nil, nil, fmt.Errorf("unknown stored base %q", st.Base)
	}
	if len(st.Prefix) > 0 {
		var pre []byte
		for _, sk := range st.Prefix {
			pl := make([]byte, sk.Len)
			for i := range pl {
				pl[i] = byte(i*31 + sk.Nibble)
			}
			pre = append(pre, ref.Skippable(sk.Nibble, pl)...)
		}
		b = append(pre, b...)
	}
	base = append([]byte(nil), b...)
	var tail2 []byte
	if st.Tail2 != nil {
		tail2, _, err = BuildStored(st.Tail2, inputs, sinkOf)
		if err != nil {
			return nil, nil, err
		}
	}
	spliced := false
	for _, m := range st.Mut {
		if m.Kind == "splice" {
			// head of this stream up to block m.Block, tail of the other from block m.B2
			fa := ref.Parse(b, ref.ParseOpt{}).Fields
			fb := ref.Parse(tail2, ref.ParseOpt{}).Fields
			na, nb := nBlocks(fa), nBlocks(fb)
			if na > 0 && nb > 0 {
				sa, _, oka := blockRange(fa, m.Block%na)
				sb, _, okb := blockRange(fb, m.B2%nb)
				if oka && okb {
					b = append(b[:sa:sa], tail2[sb:]...)
					spliced = true
				}
			}
			continue
		}
		b = applyMutation(b, m)
	}
	b = append(b, st.Tail...)
	if st.Tail2 != nil && !spliced {
		b = append(b, tail2...)
	}
	if st.Cut > 0 && st.Cut < len(b) {
		b = b[:st.Cut]
	}
	return b, base, nil
}

func findField(fs []ref.Field, kind string, blk int) (ref.Field, bool) {
	var firstOfKind *ref.Field
	for i := range fs {
		if fs[i].Kind == kind {
			if fs[i].Block == blk || fs[i].Block < 0 {
				return fs[i], true
			}
			if firstOfKind == nil {
				firstOfKind = &fs[i]
			}
		}
	}
	if firstOfKind != nil {
		// block index beyond the frame: take it modulo the number of such fields
		var all []ref.Field
		for _, f := range fs {
			if f.Kind == kind {
				all = append(all, f)
			}
		}
		if blk < 0 {
			blk = -blk
		}
		return all[blk%len(all)], true
	}
	return ref.Field{}, false
}

func blockRange(fs []ref.Field, blk int) (int, int, bool) {
	s, e := -1, -1
	for _, f := range fs {
		if f.Block == blk && (f.Kind == "bsize" || f.Kind == "lbsize") {
			s = f.Off
		}
		if f.Block == blk && (f.Kind == "bdata" || f.Kind == "bsum" || f.Kind == "lbdata") {
			e = f.Off + f.Len
		}
	}
	return s, e, s >= 0 && e > s
}

func nBlocks(fs []ref.Field) int {
	n := 0
	for _, f := range fs {
		if f.Kind == "bsize" || f.Kind == "lbsize" {
			n++
		}
	}
	return n
}

func applyMutation(b []byte, m plan.Mutation) []byte {
	if len(b) == 0 {
		return b
	}
	fs := ref.Parse(b, ref.ParseOpt{}).Fields
	offset := func() int {
		if f, ok := findField(fs, m.Field, m.Block); ok && f.Len > 0 {
			by := m.Byte
			if by < 0 {
				by = -by
			}
			return f.Off + by%f.Len
		}
		x := uint64(m.Byte)*2654435761 + uint64(m.Block)*97 + 13
		return int(x % uint64(len(b)))
	}
	switch m.Kind {
	case "flip":
		o := offset()
		if o < len(b) {
			b[o] ^= 1 << uint(m.Bit&7)
		}
	case "set":
		o := offset()
		if o < len(b) {
			if b[o] == byte(m.Val) {
				b[o] = byte(m.Val) + 1
			} else {
				b[o] = byte(m.Val)
			}
		}
	case "delblock":
		nb := nBlocks(fs)
		if nb == 0 {
			return b
		}
		if s, e, ok := blockRange(fs, m.Block%nb); ok {
			b = append(b[:s:s], b[e:]...)
		}
	case "dupblock":
		nb := nBlocks(fs)
		if nb == 0 {
			return b
		}
		if s, e, ok := blockRange(fs, m.Block%nb); ok {
			nb := append([]byte(nil), b[:e]...)
			nb = append(nb, b[s:e]...)
			b = append(nb, b[e:]...)
		}
	case "swapblocks":
		nb := nBlocks(fs)
		if nb < 2 {
			return b
		}
		i, j := m.Block%nb, m.B2%nb
		if i == j {
			j = (i + 1) % nb
		}
		if i > j {
			i, j = j, i
		}
		s1, e1, ok1 := blockRange(fs, i)
		s2, e2, ok2 := blockRange(fs, j)
		if ok1 && ok2 {
			var nb []byte
			nb = append(nb, b[:s1]...)
			nb = append(nb, b[s2:e2]...)
			nb = append(nb, b[e1:s2]...)
			nb = append(nb, b[s1:e1]...)
			nb = append(nb, b[e2:]...)
			b = nb
		}
	case "insert":
		o := offset()
		nb := append([]byte(nil), b[:o]...)
		nb = append(nb, m.Data...)
		b = append(nb, b[o:]...)
	case "oversize":
		// a stored (raw) block of exactly the block maximum grows by m.Val
		// bytes: its size word announces more than the declared maximum
		f := ref.Parse(b, ref.ParseOpt{})
		for bi, blk := range f.Blocks {
			if blk.Raw && blk.StoredLen == f.BlockMax && f.BlockMax > 0 {
				if s, e, ok := blockRange(fs, bi); ok {
					d := m.Val
					if d <= 0 {
						d = 1
					}
					end := s + 4 + blk.StoredLen
					extra := make([]byte, d)
					for i := range extra {
						extra[i] = byte(i*7 + 1)
					}
					nb := append([]byte(nil), b[:end]...)
					nb = append(nb, extra...)
					nb = append(nb, b[end:]...)
					sz := uint32(blk.StoredLen+d) | 0x80000000
					nb[s], nb[s+1], nb[s+2], nb[s+3] = byte(sz), byte(sz>>8), byte(sz>>16), byte(sz>>24)
					_ = e
					return nb
				}
			}
		}
	case "cutfield":
		// truncate 0..3 bytes into a chosen field (the places where a
		// truncation is easiest to mistake for a clean end)
		if f, ok := findField(fs, m.Field, m.Block); ok {
			d := m.Byte
			if d < 0 {
				d = -d
			}
			at := f.Off + d%4
			if at >= 1 && at < len(b) {
				b = b[:at]
			}
		}
	case "cutrand":
		if len(b) > 1 {
			by := m.Byte
			if by < 0 {
				by = -by
			}
			b = b[:1+by%(len(b)-1)]
		}
	case "delete":
		o := offset()
		n := m.Val
		if o+n > len(b) {
			n = len(b) - o
		}
		b = append(b[:o:o], b[o+n:]...)
	}
	return b
}

func (x *run) prepareReader(ri int) {
	rs := &x.p.Readers[ri]
	for i := range rs.Srcs {
		st := &rs.Srcs[i].Stored
		final, base, err := BuildStored(st, x.inputs, func(w, s int) []byte {
			return x.out.W[w].Sinks[s].Buf
		})
		if err != nil {
			panic(err)
		}
		fr := ref.Parse(final, ref.ParseOpt{})
		var bounds []int
		for _, f := range fr.Fields {
			bounds = append(bounds, f.Off+f.Len)
		}
		x.prep.Stored[ri] = append(x.prep.Stored[ri], final)
		x.prep.Base[ri] = append(x.prep.Base[ri], base)
		x.prep.Bounds[ri] = append(x.prep.Bounds[ri], bounds)
		x.prep.Fields[ri] = append(x.prep.Fields[ri], fr.Fields)
		for _, m := range st.Mut {
			switch m.Kind {
			case "flip":
				x.out.Probes.Add("corrupt.flip", 1)
			case "set":
				x.out.Probes.Add("corrupt.set", 1)
			default:
				x.out.Probes.Add("corrupt.struct", 1)
			}
		}
		if st.Cut > 0 {
			x.out.Probes.Add("cut", 1)
		}
	}
}
