package engine

import (
	"verif/sim/plan"
)

func init() { Expand = expand }

// pickCalls implements the stated sampling rule for fault positions: all of
// 1..K when K <= full, otherwise the first and last 16, the positions in
// `around` +-1, and 32 sampled ones.
func pickCalls(K, full int, around []int, r *plan.Rand) []int {
	if full <= 0 {
		full = 64
	}
	if K <= full {
		out := make([]int, K)
		for i := range out {
			out[i] = i + 1
		}
		return out
	}
	set := map[int]bool{}
	for i := 1; i <= 16; i++ {
		set[i] = true
		set[K+1-i] = true
	}
	for _, a := range around {
		for d := -1; d <= 1; d++ {
			if a+d >= 1 && a+d <= K {
				set[a+d] = true
			}
		}
	}
	for i := 0; i < 32; i++ {
		set[1+r.Intn(K)] = true
	}
	var out []int
	for k := 1; k <= K; k++ {
		if set[k] {
			out = append(out, k)
		}
	}
	return out
}

// twin cache: sink bytes of the most recent fault-free twin, keyed by the
// hash of the fault-free plan.
var twinKey uint64
var twinSinks [][][]byte

func stripFaults(p *plan.Plan) *plan.Plan {
	q := p.Clone()
	q.Enum = nil
	q.Twin = false
	q.Expect = ""
	for wi := range q.Writers {
		for si := range q.Writers[wi].Sinks {
			q.Writers[wi].Sinks[si].Faults = nil
		}

	}
	if q.Sched.Policy == "explicit" {
		q.Sched.Policy = "random"
		q.Sched.Choices = nil
	}
	return q
}

func sinksOf(out *Outcome) [][][]byte {
	var all [][][]byte
	for _, w := range out.W {
		var ss [][]byte
		for _, s := range w.Sinks {
			ss = append(ss, append([]byte(nil), s.Buf...))
		}
		all = append(all, ss)
	}
	return all
}

// twinFor returns the sinks of the fault-free twin of p, executing it when it
// is not the cached one.
func twinFor(ex *Executor, p *plan.Plan, agg *Agg) [][][]byte {
	t := stripFaults(p)
	k := t.Hash()
	if k == twinKey && twinSinks != nil {
		return twinSinks
	}
	out := ex.Execute(t)
	agg.note(t, out)
	twinKey, twinSinks = k, sinksOf(out)
	return twinSinks
}

func expand(ex *Executor, p *plan.Plan, res *Result, agg *Agg) []*plan.Plan {
	e := p.Enum
	r := plan.NewRand(plan.Mix(e.Seed, 0xe7))
	base := p.Clone()
	base.Enum = nil
	base.Twin = false
	out := ex.Execute(base)
	res.Execs++
	res.Steps += out.Steps
	res.TraceHash = out.TraceHash
	agg.note(base, out)
	if vs := Judge(base, out); len(vs) > 0 {
		// the fault-free base run itself fails: report it as it is
		return []*plan.Plan{base}
	}
	idx := atoi(e.Target[1:])
	var cases []*plan.Plan
	switch e.Kind {
	case "sinkfail":
		if p.Twin {
			// the base run is the twin (no sink faults): no need to execute it
			// again. Faults of a ReadFrom source stay in the twin: they decide
			// how much input each call consumes, and "fault-free" here means
			// free of sink faults.
			twinKey, twinSinks = stripFaults(p).Hash(), sinksOf(out)
		}
		wo := out.W[idx]
		for si, s := range wo.Sinks {
			// positions right after a Flush are interesting
			var around []int
			for oi, o := range wo.Ops {
				if o.Op == "flush" && o.Sink == si {
					around = append(around, wo.Ops[oi].SinkCalls)
				}
			}
			for _, k := range pickCalls(s.Calls, e.Full, around, r) {
				for _, kind := range []string{"fail", "short"} {
					for _, forever := range []bool{false, true} {
						q := p.Clone()
						q.Enum = nil
						q.Writers[idx].Sinks[si].Faults = []plan.WFault{{Call: k, Kind: kind, M: r.Intn(5), Forever: forever}}
						cases = append(cases, q)
					}
				}
			}
		}
	case "srcfail":
		ro := out.R[idx]
		for si, s := range ro.Srcs {
			for _, k := range pickCalls(s.Calls, e.Full, nil, r) {
				for _, kind := range []string{"err0", "errn", "err0t"} {
					q := p.Clone()
					q.Enum = nil
					q.Readers[idx].Srcs[si].Faults = append(append([]plan.RFault(nil), p.Readers[idx].Srcs[si].Faults...), plan.RFault{Call: k, Kind: kind})
					cases = append(cases, q)
				}
			}
		}
	case "wtsinkfail":
		ro := out.R[idx]
		wt := 0
		for oi, op := range p.Readers[idx].Ops {
			if op.Op != "writeto" || wt >= len(ro.WTSinks) {
				continue
			}
			s := ro.WTSinks[wt]
			wt++
			for _, k := range pickCalls(s.Calls, e.Full, nil, r) {
				for _, kind := range []string{"fail", "short"} {
					q := p.Clone()
					q.Enum = nil
					sp := plan.SinkPlan{}
					if op.Sink != nil {
						sp = *op.Sink
					}
					sp.Faults = []plan.WFault{{Call: k, Kind: kind, M: r.Intn(5), Forever: r.Bool()}}
					q.Readers[idx].Ops[oi].Sink = &sp
					cases = append(cases, q)
				}
			}
		}
	case "cuts":
		ro := out.R[idx]
		L := len(ro.Stored[0])
		var cuts []int
		if L <= 2048 || e.Full < 0 {
			for c := 1; c < L; c++ {
				cuts = append(cuts, c)
			}
		} else {
			set := map[int]bool{}
			for _, b := range ex.lastPrepBounds(out, idx) {
				for d := -3; d <= 3; d++ {
					if b+d >= 1 && b+d < L {
						set[b+d] = true
					}
				}
			}
			for i := 0; i < 64; i++ {
				set[1+r.Intn(L-1)] = true
			}
			for c := 1; c < L; c++ {
				if set[c] {
					cuts = append(cuts, c)
				}
			}
		}
		for _, c := range cuts {
			q := p.Clone()
			q.Enum = nil
			rs := &q.Readers[idx]
			rs.Srcs[0].Stored.Cut = c
			cr := plan.NewRand(plan.Mix(e.Seed, uint64(c)))
			rs.Conc = cr.PickInt(1, 1, 2, 4)
			rs.Srcs[0].EOFWithData = cr.Bool()
			rs.Srcs[0].Frag.Policy = cr.PickStr("full", "rand", "bound", "small")
			rs.Srcs[0].Frag.Seed = cr.Uint64()
			if L > 70000 && rs.Srcs[0].Frag.Policy == "small" {
				rs.Srcs[0].Frag.Policy = "rand"
			}
			if cr.Chance(1, 8) {
				rs.Srcs[0].Bufio = cr.PickInt(16, 64, 4096)
			}
			rs.Srcs[0].Seeker = cr.Chance(1, 4)
			if cr.Chance(1, 3) {
				rs.Ops = []plan.ROp{{Op: "writeto"}}
			} else {
				rs.Ops = []plan.ROp{{Op: "drain", Sizes: []int{cr.PickInt(1, 7, 100, 4096, 65536, 70000, 1<<20)}}}
				if L > 70000 && rs.Ops[0].Sizes[0] < 100 {
					rs.Ops[0].Sizes[0] = 4096
				}
			}
			q.Sched.Seed = cr.Uint64()
			cases = append(cases, q)
		}
	}
	return cases
}

// lastPrepBounds returns the field boundaries of the stored stream of reader
// idx in the given outcome.
func (e *Executor) lastPrepBounds(out *Outcome, idx int) []int {
	if out.Prep == nil || idx >= len(out.Prep.Bounds) || len(out.Prep.Bounds[idx]) == 0 {
		return nil
	}
	return out.Prep.Bounds[idx][0]
}
