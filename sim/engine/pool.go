package engine

import (
	"fmt"
	"unsafe"

	"verif/sim/plan"
)

const maxFree = 256

// freeList is a fixed-capacity list: hooks must not call append or copy on
// shared slices (the runtime helpers behind them are race-instrumented even
// when the caller is norace).
type freeList struct {
	n int
	b [maxFree]poolBuf
}

// SimPool is the adversarial replacement of the library's block-buffer pools.
type SimPool struct {
	mode string
	rng  *plan.Rand
	free [8]freeList // by block size index
	// accounting
	Gets, Puts  int
	Reissued    int
	Outstanding int64 // bytes handed out and not returned
	Peak        int64
	viol        [16]string
	nviol       int
	released    int
	passthrough bool
}

type poolBuf struct {
	b      []byte
	poison byte
}

//go:norace
func (sp *SimPool) violate(s string) {
	if sp.nviol < len(sp.viol) {
		sp.viol[sp.nviol] = s
		sp.nviol++
	}
}

// Violations lists what the pool adversary observed.
func (sp *SimPool) Violations() []string { return append([]string(nil), sp.viol[:sp.nviol]...) }

func capIndex(c int) int {
	switch c {
	case 64 << 10:
		return 4
	case 256 << 10:
		return 5
	case 1 << 20:
		return 6
	case 4 << 20:
		return 7
	case 8 << 20:
		return 3
	}
	return -1
}

func indexCap(i int) int {
	switch i {
	case 4:
		return 64 << 10
	case 5:
		return 256 << 10
	case 6:
		return 1 << 20
	case 7:
		return 4 << 20
	case 3:
		return 8 << 20
	}
	return 0
}

func keepFresh(idx int) int {
	switch idx {
	case 4:
		return 32
	case 5:
		return 8
	}
	return 2
}

func NewSimPool(mode string, seed uint64) *SimPool {
	return &SimPool{mode: mode, rng: plan.NewRand(plan.Mix(seed, 0x9001)), passthrough: mode == "passthrough"}
}

// poisonVisible fills b with race instrumentation on, so that a stale holder's
// access that is not ordered after the release is a reported data race.
func poisonVisible(b []byte, v byte) {
	if len(b) > poisonFull {
		// 4 and 8 MiB buffers: the first MiB and the last 64 KiB only (the
		// runs that use them rarely fill more), to keep such runs affordable
		poisonVisible(b[:poisonFull], v)
		poisonVisible(b[len(b)-poisonTail:], v)
		return
	}
	for i := range b {
		b[i] = v
	}
}

const (
	poisonFull = 1 << 20
	poisonTail = 64 << 10
)

//go:norace
func checkPoison(b []byte, v byte) int {
	if len(b) > poisonFull {
		if at := checkPoison(b[:poisonFull], v); at >= 0 {
			return at
		}
		if at := checkPoison(b[len(b)-poisonTail:], v); at >= 0 {
			return len(b) - poisonTail + at
		}
		return -1
	}
	for i := range b {
		if b[i] != v {
			return i
		}
	}
	return -1
}

//go:norace
func fillJunk(b []byte, seed uint64) {
	if len(b) > poisonFull {
		fillJunk(b[:poisonFull], seed)
		fillJunk(b[len(b)-poisonTail:], seed+1)
		return
	}
	x := seed | 1
	for i := 0; i+8 <= len(b); i += 8 {
		x ^= x << 13
		x ^= x >> 7
		x ^= x << 17
		b[i], b[i+1], b[i+2], b[i+3] = byte(x), byte(x>>8), byte(x>>16), byte(x>>24)
		b[i+4], b[i+5], b[i+6], b[i+7] = byte(x>>32), byte(x>>40), byte(x>>48), byte(x>>56)
	}
}

//go:norace
func hookPoolGet(idx int) []byte {
	w := theWorld
	if w == nil || w.pool == nil || w.pool.passthrough {
		return nil
	}
	sp := w.pool
	c := indexCap(idx)
	if c == 0 {
		return nil
	}
	raceDisable()
	w.mu.Lock()
	sp.Gets++
	var out []byte
	fl := &sp.free[idx]
	if fl.n > 0 && sp.mode != "fresh" {
		k := fl.n - 1 // lifo
		switch sp.mode {
		case "fifo":
			k = 0
		case "random":
			k = sp.rng.Intn(fl.n)
		}
		pb := fl.b[k]
		for i := k; i+1 < fl.n; i++ {
			fl.b[i] = fl.b[i+1]
		}
		fl.n--
		fl.b[fl.n] = poolBuf{}
		if at := checkPoison(pb.b, pb.poison); at >= 0 {
			sp.violate(fmt.Sprintf("write-after-release: buffer of class %d modified at offset %d while in the pool", idx, at))
		}
		out = pb.b
		sp.Reissued++
	}
	if out == nil {
		out = make([]byte, c)
		fillJunk(out, uint64(sp.Gets)*0x9E3779B97F4A7C15+7)
	}
	sp.Outstanding += int64(c)
	if sp.Outstanding > sp.Peak {
		sp.Peak = sp.Outstanding
	}
	w.mu.Unlock()
	raceEnable()
	// Order the new holder after the previous holder's release, as sync.Pool does.
	raceAcquire(unsafe.Pointer(&out[0]))
	return out
}

//go:norace
func hookPoolPut(buf []byte) bool {
	w := theWorld
	if w == nil || w.pool == nil || w.pool.passthrough {
		return false
	}
	sp := w.pool
	idx := capIndex(cap(buf))
	if idx < 0 {
		return false // the library ignores such buffers
	}
	buf = buf[:cap(buf)]
	raceDisable()
	w.mu.Lock()
	sp.Puts++
	sp.released++
	pv := byte(0xA5 ^ (sp.released * 37))
	dup := false
	fl := &sp.free[idx]
	for i := 0; i < fl.n; i++ {
		if &fl.b[i].b[0] == &buf[0] {
			dup = true
		}
	}
	w.mu.Unlock()
	raceEnable()
	if dup {
		raceDisable()
		w.mu.Lock()
		sp.violate(fmt.Sprintf("double-put: buffer of class %d released twice", idx))
		w.mu.Unlock()
		raceEnable()
		return true
	}
	poisonVisible(buf, pv)
	raceReleaseMerge(unsafe.Pointer(&buf[0]))
	raceDisable()
	w.mu.Lock()
	sp.Outstanding -= int64(cap(buf))
	limit := maxFree
	if sp.mode == "fresh" {
		// never reissued, but still watched for writes after release
		limit = keepFresh(idx)
	}
	if fl.n < limit {
		fl.b[fl.n] = poolBuf{buf, pv}
		fl.n++
	}
	w.mu.Unlock()
	raceEnable()
	return true
}

// Finish verifies the poison of everything still in the pool.
//
//go:norace
func (sp *SimPool) Finish() {
	for idx := range sp.free {
		fl := &sp.free[idx]
		for i := 0; i < fl.n; i++ {
			if at := checkPoison(fl.b[i].b, fl.b[i].poison); at >= 0 {
				sp.violate(fmt.Sprintf("write-after-release: buffer of class %d modified at offset %d while in the pool (end of run)", idx, at))
			}
		}
	}
}
