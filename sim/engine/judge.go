package engine

import (
	"bytes"
	"errors"
	"fmt"

	"verif/sim/plan"
	"verif/sim/ref"
)

// Violation is one property violation found in a run. Class+Key form the
// signature used for known findings, minimisation and replay comparison.
type Violation struct {
	Class  string `json:"class"`
	Key    string `json:"key"`
	Detail string `json:"detail"`
}

func (v Violation) Sig() string {
	if v.Key == "" {
		return v.Class
	}
	return v.Class + " " + v.Key
}

type judge struct {
	p   *plan.Plan
	out *Outcome
	vs  []Violation
}

func (j *judge) add(class, key, format string, a ...interface{}) {
	j.vs = append(j.vs, Violation{class, key, fmt.Sprintf(format, a...)})
}

func kindsOf(desc string) string {
	// "W.collector blocked-after W.coll.recvq; client:W0 ..." -> keep kinds and sites, drop nothing
	return desc
}

// judgeGlobal checks the invariants every run asserts: no panic, no deadlock,
// no livelock, no leak at quiescence, pool poison intact, no buffer mutated
// during a sink call, no data race.
func (j *judge) judgeGlobal() {
	o := j.out
	for _, p := range o.Panics {
		first := p
		if i := bytes.IndexByte([]byte(p), '\n'); i > 0 {
			first = p[:i]
		}
		j.add("panic", panicKey(first), "%s", p)
	}
	if o.Livelock {
		j.add("livelock", "", "step budget exhausted after %d steps: %s", o.Steps, o.Deadlock)
	} else if o.Deadlock != "" {
		j.add("deadlock", deadlockKey(o.Deadlock), "no goroutine can run: %s", o.Deadlock)
	}
	for _, l := range o.Leaks {
		j.add("leak", leakKey(l), "goroutine blocked forever after its object finished: %s", l)
	}
	for _, v := range o.PoolViol {
		k := "write-after-release"
		if len(v) > 10 && v[:10] == "double-put" {
			k = "double-put"
		}
		j.add("pool", k, "%s", v)
	}
	for wi, w := range o.W {
		for si, s := range w.Sinks {
			if s.Mutated > 0 {
				j.add("sink-buffer-mutated", "writer", "W%d sink %d: buffer changed during %d sink calls", wi, si, s.Mutated)
			}
		}
	}
	for ri, r := range o.R {
		for si, s := range r.WTSinks {
			if s.Mutated > 0 {
				j.add("sink-buffer-mutated", "writeto", "R%d WriteTo sink %d: buffer changed during %d sink calls", ri, si, s.Mutated)
			}
		}
	}
	if o.Races > 0 {
		j.add("race", "", "%d data race report(s) from the race detector", o.Races)
	}
	if o.BubblePanic != "" && o.Deadlock == "" && len(o.Leaks) == 0 && !o.Livelock && o.World != nil && o.World.Abandoned == 0 {
		j.add("bubble", "", "simulation bubble ended abnormally: %s", o.BubblePanic)
	}
}

func panicKey(first string) string {
	if len(first) > 60 {
		first = first[:60]
	}
	return first
}

// deadlockKey keeps the kinds and sites of the blocked goroutines, which name
// the defect, and drops ids.
func deadlockKey(d string) string {
	if len(d) > 160 {
		d = d[:160]
	}
	return d
}

func leakKey(l string) string { return l }

// ---------------------------------------------------------------------------
// Writer reference model (C17; reused by every check that drives a Writer).

type wModel struct {
	j          *judge
	wi         int
	ws         *plan.WScript
	wo         *WOut
	opts       plan.WOpts
	optsKnown  bool
	phase      string // new open closed
	failed     bool   // a call of this frame returned an error
	sink       int
	start      int // sink length when the frame started
	accepted   []byte
	offered    []byte
	locked     bool // a data call happened in this frame
	flushed    bool
	usedRF     bool
	rfThenMore bool
	dataCalls  int
	inputLen   int
	frames     int
}

func optsValid(o plan.WOpts) bool {
	if o.Default {
		return true
	}
	if o.BS != 0 && (o.BS < 4 || o.BS > 7) {
		return false
	}
	if o.Level < 0 || o.Level > 9 {
		return false
	}
	return true
}

// faultFired tells whether an injected fault fired on the frame's sink.
func (m *wModel) faultFired() bool {
	return m.wo.Sinks[m.sink].FaultAt >= 0
}

// checkFrame verifies that sink[start:] is exactly one frame holding accepted.
func (m *wModel) checkFrame(opi int) {
	j := m.j
	sink := m.wo.Sinks[m.sink].Buf
	if m.start > len(sink) {
		j.add("writer-sink-shrunk", "", "W%d op %d", m.wi, opi)
		return
	}
	b := sink[m.start:]
	f := ref.Parse(b, ref.ParseOpt{Strict: true})
	if f.Err != nil {
		j.add("frame-invalid", refErrKey(f), "W%d op %d (close): emitted frame rejected by the reference parser at field %s: %v", m.wi, opi, f.ErrField, f.Err)
		return
	}
	if f.Consumed != len(b) {
		j.add("frame-trailing-bytes", "", "W%d op %d (close): %d bytes after the end of the frame", m.wi, opi, len(b)-f.Consumed)
		return
	}
	if !bytes.Equal(f.Content, m.accepted) {
		j.add("frame-content", contentKey(f.Content, m.accepted), "W%d op %d (close): decoded content (%d bytes) differs from accepted input (%d bytes): %s", m.wi, opi, len(f.Content), len(m.accepted), diffAt(f.Content, m.accepted))
		return
	}
	for _, b := range f.Blocks {
		if b.Raw {
			j.out.Probes.Add("raw.block.emitted", 1)
		}
	}
	if m.optsKnown {
		m.checkOptions(opi, f)
	}
}

func (m *wModel) checkOptions(opi int, f *ref.Frame) {
	j := m.j
	o := m.opts
	if o.Default {
		// library defaults: 4 MiB blocks, content checksum, no block checksum, no size
		o = plan.WOpts{BS: 7, CSum: true}
	}
	if o.Legacy != f.Legacy {
		j.add("frame-options", "legacy", "W%d op %d: legacy=%v in frame, %v configured", m.wi, opi, f.Legacy, o.Legacy)
		return
	}
	if f.Legacy {
		if !m.flushed && !f.LegacyFullBlocks() {
			j.add("frame-options", "legacy-block-fill", "W%d op %d: a non-final legacy block does not hold 8 MiB", m.wi, opi)
		}
		return
	}
	bs := o.BS
	if bs == 0 {
		bs = 7
	}
	if f.BlockMaxIdx != bs {
		j.add("frame-options", "block-size", "W%d op %d: block size code %d, configured %d", m.wi, opi, f.BlockMaxIdx, bs)
	}
	if f.BlockSum != o.BSum {
		j.add("frame-options", "block-checksum", "W%d op %d: block checksum flag %v, configured %v", m.wi, opi, f.BlockSum, o.BSum)
	}
	if f.ContentSum != o.CSum {
		j.add("frame-options", "content-checksum", "W%d op %d: content checksum flag %v, configured %v", m.wi, opi, f.ContentSum, o.CSum)
	}
	var want uint64
	has := false
	switch {
	case o.Size == -1:
		want, has = uint64(m.inputLen), m.inputLen > 0
	case o.Size > 0:
		want, has = uint64(o.Size), true
	}
	if f.HasSize != has || (has && f.ContentSize != want) {
		j.add("frame-options", "content-size", "W%d op %d: content size present=%v value=%d, configured present=%v value=%d", m.wi, opi, f.HasSize, f.ContentSize, has, want)
	}
	if !f.BlockIndep {
		j.add("frame-options", "block-independence", "W%d op %d: frame declares dependent blocks", m.wi, opi)
	}
	// (Modern frames: that non-final blocks are full is not demanded by any
	// property - only that none exceeds the declared maximum, which the
	// reference parser enforces, and that boundaries do not depend on the
	// Write partition, which C14 checks byte for byte. It is recorded as a
	// probe only.)
	if !m.flushed && !m.usedRFShort() {
		for i, b := range f.Blocks {
			if i < len(f.Blocks)-1 && b.DecLen != f.BlockMax {
				j.out.Probes.Add("out.of.scope", 1)
				break
			}
		}
	}
}

func (m *wModel) usedRFShort() bool { return m.rfThenMore }

func refErrKey(f *ref.Frame) string {
	e := f.Err
	for {
		u := errors.Unwrap(e)
		if u == nil {
			break
		}
		e = u
	}
	return f.ErrField + ":" + e.Error()
}

func contentKey(got, want []byte) string {
	switch {
	case len(got) < len(want) && bytes.Equal(got, want[:len(got)]):
		return "short"
	case len(got) > len(want) && bytes.Equal(got[:len(want)], want):
		return "long"
	case len(got) == len(want):
		return "bytes-differ"
	}
	return "differs"
}

func diffAt(a, b []byte) string {
	n := len(a)
	if len(b) < n {
		n = len(b)
	}
	for i := 0; i < n; i++ {
		if a[i] != b[i] {
			return fmt.Sprintf("first difference at offset %d (got %#02x want %#02x)", i, a[i], b[i])
		}
	}
	return fmt.Sprintf("common prefix of %d bytes", n)
}

// checkPrefix: whatever is in the sink decodes to a prefix of what was offered.
func (m *wModel) checkPrefix(opi int, what string) {
	sink := m.wo.Sinks[m.sink].Buf
	if m.start > len(sink) {
		return
	}
	if fa := m.wo.Sinks[m.sink].FaultAt; fa >= 0 && fa <= len(sink) {
		// Only what reached the sink before the first injected fault is
		// judged; what a Writer appends after a reported failure is not.
		sink = sink[:fa]
	}
	if len(sink) <= m.start {
		return // nothing reached the sink
	}
	f := ref.Parse(sink[m.start:], ref.ParseOpt{Prefix: true})
	if f.Err != nil {
		m.j.add("partial-frame-invalid", refErrKey(f), "W%d op %d (%s): bytes in the sink are not a prefix of a valid frame: field %s: %v", m.wi, opi, what, f.ErrField, f.Err)
		return
	}
	if len(f.Content) > len(m.offered) || !bytes.Equal(f.Content, m.offered[:len(f.Content)]) {
		m.j.add("partial-frame-content", contentKey(f.Content, m.offered), "W%d op %d (%s): decoded sink content is not a prefix of the data written: %s", m.wi, opi, what, diffAt(f.Content, m.offered))
	}
}

// runWriterModel replays the observed results of a Writer client against the
// reference model and reports every deviation.
func (j *judge) runWriterModel(wi int, strictFaultFree bool) {
	ws := &j.p.Writers[wi]
	wo := j.out.W[wi]
	m := &wModel{j: j, wi: wi, ws: ws, wo: wo, opts: ws.Opts, optsKnown: true, phase: "new", inputLen: len(j.out.Inputs[ws.In])}
	if len(wo.Sinks) == 0 {
		return
	}
	seq := ws.Opts.Conc == 1 && !ws.Opts.Default || ws.Opts.Default
	applyOK := optsValid(ws.Opts)
	if applyOK && !wo.ApplyErr.Nil {
		j.add("unjustified-error", "apply-initial", "W%d: initial Apply failed: %s", wi, wo.ApplyErr.Msg)
	}
	if !applyOK {
		if wo.ApplyErr.Nil {
			j.add("invalid-option-accepted", "", "W%d: Apply accepted invalid options %+v", wi, ws.Opts)
		}
		m.failed = true
		m.optsKnown = false
	}
	for opi, r := range wo.Ops {
		op := ws.Ops[opi]
		if r.Panic != "" {
			return // reported globally
		}
		sinkBefore := 0
		if opi > 0 && wo.Ops[opi-1].Sink == r.Sink {
			sinkBefore = wo.Ops[opi-1].SinkLen
		} else if opi == 0 {
			sinkBefore = 0
		} else {
			sinkBefore = -1
		}
		grew := sinkBefore >= 0 && r.SinkLen > sinkBefore
		justified := m.failed || m.faultFired() || m.phase == "closed"
		if seq && r.Sink == m.sink && op.Op != "reset" && op.Op != "renew" {
			// C15: on a sequential Writer the very call that hit the fault returns it
			prevCalls := 0
			if opi > 0 && wo.Ops[opi-1].Sink == r.Sink {
				prevCalls = wo.Ops[opi-1].SinkCalls
			} else if opi > 0 {
				prevCalls = -1
			}
			s := wo.Sinks[r.Sink]
			if prevCalls >= 0 && s.FaultAt >= 0 && s.FaultCall > prevCalls && s.FaultCall <= r.SinkCalls && !r.Err.Injected {
				j.add("fault-swallowed", "seq-"+op.Op, "W%d op %d: sink call %d failed during this %s on a sequential Writer, which returned %s", wi, opi, s.FaultCall, op.Op, errStr(r.Err))
			}
		}
		switch op.Op {
		case "write", "readfrom":
			asked := r.Asked
			if op.Op == "readfrom" && m.phase != "new" {
				justified = true // ReadFrom on a frame already started may be refused
			}
			if m.usedRF && m.dataCalls > 0 {
				m.rfThenMore = true // ReadFrom ended its block where its source ended
			}
			if m.phase == "closed" {
				if r.Err.Nil && asked > 0 || r.N != 0 {
					j.add("write-after-close", op.Op+"-accepted", "W%d op %d: %s after Close returned n=%d err=%s", wi, opi, op.Op, r.N, errStr(r.Err))
				}
				if grew {
					j.add("write-after-close", op.Op+"-output", "W%d op %d: %s after Close grew the sink by %d bytes", wi, opi, op.Op, r.SinkLen-sinkBefore)
				}
				m.failed = true
				break
			}
			if r.N < 0 || int(r.N) > asked {
				j.add("bad-count", op.Op, "W%d op %d: %s returned n=%d for %d bytes", wi, opi, op.Op, r.N, asked)
				m.failed = true
				break
			}
			m.offered = append(m.offered, offeredBytes(j, ws, wo, opi)...)
			if r.SrcFault {
				// C15: the source of ReadFrom failed: that error is returned
				justified = true
				if r.Err.Nil {
					j.add("fault-swallowed", "readfrom-source", "W%d op %d: the ReadFrom source failed with the injected error but ReadFrom returned nil after %d bytes", wi, opi, r.N)
					m.failed = true
				} else if !r.Err.Injected && !m.failed && !m.faultFired() {
					j.add("error-not-faithful", "readfrom-source", "W%d op %d: the ReadFrom source failed with the injected error but ReadFrom returned %s", wi, opi, r.Err.Msg)
				}
			}
			if r.Err.Nil {
				if int(r.N) != asked {
					j.add("short-write-no-error", op.Op, "W%d op %d: %s returned n=%d of %d with a nil error", wi, opi, op.Op, r.N, asked)
					m.failed = true
				}
			} else {
				if !justified {
					j.add("unjustified-error", op.Op, "W%d op %d: %s failed on a healthy writer: %s", wi, opi, op.Op, r.Err.Msg)
				}
				if m.faultFired() && !r.Err.Injected && !m.failed {
					j.add("error-not-faithful", op.Op, "W%d op %d: %s failed after an injected sink fault but the error does not wrap it: %s", wi, opi, op.Op, r.Err.Msg)
				}
				m.failed = true
			}
			m.accepted = append(m.accepted, wo.Accepted[opi]...)
			if m.phase == "new" {
				m.phase = "open"
			}
			m.locked = true
			m.dataCalls++
			if op.Op == "readfrom" {
				m.usedRF = true
			}
		case "flush":
			if m.phase == "closed" {
				if grew {
					j.add("write-after-close", "flush-output", "W%d op %d: Flush after Close grew the sink by %d bytes", wi, opi, r.SinkLen-sinkBefore)
				}
				break
			}
			if !r.Err.Nil {
				if !justified {
					j.add("unjustified-error", "flush", "W%d op %d: Flush failed on a healthy writer: %s", wi, opi, r.Err.Msg)
				}
				m.failed = true
			} else if !m.failed && !m.faultFired() {
				m.flushed = true
				if m.phase == "new" {
					m.phase = "open"
				}
				m.locked = true
				if seq {
					// Flush barrier: everything written so far is decodable from the sink.
					sink := wo.Sinks[m.sink].Buf
					if r.SinkLen <= len(sink) && m.start <= r.SinkLen {
						f := ref.Parse(sink[m.start:r.SinkLen], ref.ParseOpt{Prefix: true})
						if f.Err != nil {
							j.add("flush-barrier", "invalid:"+refErrKey(f), "W%d op %d: after Flush the sink is not a decodable prefix: field %s: %v", wi, opi, f.ErrField, f.Err)
						} else if !bytes.Equal(f.Content, m.accepted) {
							j.add("flush-barrier", "content-"+contentKey(f.Content, m.accepted), "W%d op %d: after Flush the sink decodes to %d bytes, %d were written: %s", wi, opi, len(f.Content), len(m.accepted), diffAt(f.Content, m.accepted))
						}
						j.out.Probes.Add("flush.barrier.checked", 1)
					}
				}
			}
		case "close":
			if m.phase == "closed" {
				if grew {
					j.add("double-close", "output", "W%d op %d: second Close grew the sink by %d bytes", wi, opi, r.SinkLen-sinkBefore)
				}
				break
			}
			if !r.Err.Nil {
				if !justified {
					j.add("unjustified-error", "close", "W%d op %d: Close failed on a healthy writer: %s", wi, opi, r.Err.Msg)
				}
				if m.faultFired() && !r.Err.Injected && !m.failed {
					j.add("error-not-faithful", "close", "W%d op %d: Close failed after an injected sink fault but the error does not wrap it: %s", wi, opi, r.Err.Msg)
				}
				m.checkPrefix(opi, "failed close")
				m.failed = true
				m.phase = "closed-failed"
				break
			}
			if m.faultFired() && !m.failed {
				// a sink fault fired and no call ever reported it
				j.add("fault-swallowed", "close", "W%d op %d: a sink fault fired (call %d) but every call including Close returned nil", wi, opi, wo.Sinks[m.sink].FaultCall)
			} else if !m.failed {
				m.checkFrame(opi)
				m.frames++
			} else {
				m.checkPrefix(opi, "close after failure")
			}
			m.phase = "closed"
		case "reset", "renew":
			if m.phase == "open" && !m.failed && !m.faultFired() {
				m.checkPrefix(opi, "abandoned frame")
			}
			m.sink = op.Sink
			m.start = r.SinkLen // sink length when Reset returned
			m.phase = "new"
			m.failed = !applyOK && false
			m.accepted, m.offered = nil, nil
			m.locked, m.flushed, m.usedRF, m.dataCalls, m.rfThenMore = false, false, false, 0, false
			if !applyOK {
				// the initial invalid Apply poisoned nothing that survives Reset
				m.optsKnown = false
			}
		case "apply":
			valid := optsValid(*op.Opts)
			switch {
			case m.phase == "closed" || m.locked || m.failed || m.phase == "closed-failed":
				if r.Err.Nil {
					// accepted after the first write: must not take effect on this frame
					m.optsKnown = m.optsKnown && false
					j.out.Probes.Add("misuse.call", 1)
				} else {
					m.failed = true
				}
			case !valid:
				if r.Err.Nil {
					j.add("invalid-option-accepted", "", "W%d op %d: Apply accepted invalid options %+v", wi, opi, *op.Opts)
				}
				m.failed = true
				m.optsKnown = false
			default:
				if !r.Err.Nil {
					j.add("unjustified-error", "apply", "W%d op %d: Apply failed on a fresh writer: %s", wi, opi, r.Err.Msg)
					m.failed = true
				} else {
					m.opts = mergeOpts(m.opts, *op.Opts)
				}
			}
		}
		if m.phase == "closed" && grew && op.Op != "close" && op.Op != "reset" {
			// covered above per op; nothing more
			_ = grew
		}
	}
	_ = strictFaultFree
}

func mergeOpts(old, nw plan.WOpts) plan.WOpts {
	if nw.Default {
		return old
	}
	// an Apply in this harness always sets every option explicitly
	return nw
}

func errStr(e ErrInfo) string {
	if e.Nil {
		return "nil"
	}
	return e.Msg
}

// offeredBytes returns the bytes passed to a data call (accepted or not).
func offeredBytes(j *judge, ws *plan.WScript, wo *WOut, opi int) []byte {
	// reconstruct the input position from the accepted lengths of earlier calls
	in := j.out.Inputs[ws.In]
	pos := 0
	for i := 0; i < opi; i++ {
		if !ws.Ops[i].Hist {
			pos += len(wo.Accepted[i])
		}
	}
	if ws.Ops[opi].Hist {
		pos = 0
	}
	n := wo.Ops[opi].Asked
	if pos+n > len(in) {
		n = len(in) - pos
	}
	return in[pos : pos+n]
}

// ---------------------------------------------------------------------------
// Reader checks.

// streamVerdict is what the reference says about stored bytes.
type streamVerdict struct {
	f       *ref.Frame // non-strict parse
	valid   bool       // complete frame accepted
	trunc   bool       // ends inside a frame
	empty   bool       // no frame at all
	content []byte     // decoded content up to the failure point
}

func verdictOf(stored []byte) streamVerdict {
	f := ref.Parse(stored, ref.ParseOpt{})
	v := streamVerdict{f: f, content: f.Content}
	v.valid = f.Err == nil && f.Complete
	v.trunc = errors.Is(f.Err, ref.ErrTruncated)
	if f.Err == ref.ErrNoFrame {
		// nothing but (possibly) skippable frames: an empty stream, which
		// ends cleanly with no content
		v.valid, v.empty = true, true
	}
	return v
}

func isPrefix(a, b []byte) bool { return len(a) <= len(b) && bytes.Equal(a, b[:len(a)]) }

// readerFlags select which clauses a property demands of a simple Reader
// script (one source; a drain or a WriteTo; optional reads after the end).
type readerFlags struct {
	prop string
}

// judgeReaderBasic checks one Reader client against the reference verdict on
// its stored bytes. It encodes, clause by clause:
//   - never wrong data: delivered bytes are a prefix of the reference content;
//   - C05: clean completion implies the reference accepts the consumed bytes
//     with identical output;
//   - C02: a valid stream read without faults completes cleanly with exactly
//     the content;
//   - C06: a truncated stream never completes cleanly (Read: not io.EOF);
//   - C15: an injected source/sink error is the error returned.
func (j *judge) judgeReaderBasic(ri int) {
	rs := &j.p.Readers[ri]
	ro := j.out.R[ri]
	if len(ro.Ops) == 0 || len(ro.Stored) == 0 {
		return
	}
	epoch := 0
	for opi := 0; opi < len(ro.Ops); opi++ {
		r := ro.Ops[opi]
		op := rs.Ops[opi]
		if r.Panic != "" {
			return
		}
		if r.Over > 0 {
			j.add("bad-count", "read-over", "R%d op %d: Read returned n > len(p)", ri, opi)
		}
		if op.Op == "reset" {
			epoch++
			continue
		}
		if op.Op != "drain" && op.Op != "writeto" {
			continue
		}
		src := ro.Srcs[r.Src]
		stored := ro.Stored[r.Src]
		v := verdictOf(stored)
		D := ro.Delivered[epoch]
		clean := op.Op == "drain" && r.Err.IsEOF || op.Op == "writeto" && r.Err.Nil
		early := op.Op == "drain" && op.Max > 0 && r.Err.Nil
		// A source error must surface unless it was delivered together with
		// the very last bytes of a complete frame (then, like data returned
		// with io.EOF, the reader already has everything it needs).
		srcFault := src.FaultPos >= 0 && !(v.valid && (!v.f.Legacy || v.f.KernelTotal) && src.FaultPos >= v.f.Consumed)
		sinkFault := op.Op == "writeto" && r.SinkFaultAt >= 0
		if r.ZeroNil > 8 {
			j.add("no-progress", "read-zero-nil", "R%d op %d: Read keeps returning (0, nil)", ri, opi)
		}
		switch {
		case v.f.Legacy:
			j.out.Probes.Add("legacy", 1)
		case v.f.Skipped > 0:
			j.out.Probes.Add("skippable.skipped", 1)
		}
		outOfScope := v.f.HeaderAnomaly()
		if outOfScope {
			j.out.Probes.Add("header.anomaly", 1)
		}
		if op.Op == "drain" && v.f.BlockMax > 0 {
			for _, sz := range op.Sizes {
				if sz >= v.f.BlockMax {
					j.out.Probes.Add("decode.direct", 1)
				} else {
					j.out.Probes.Add("decode.buffered", 1)
				}
			}
		}
		// never wrong data. (A legacy frame the harness tampered with is out
		// of scope: it has no integrity field, and the Reader resolves
		// offsets that reach before a legacy block in the previous block
		// where the reference, for which legacy blocks are independent,
		// rejects them - garbage in, garbage out either way.)
		stc := &rs.Srcs[r.Src].Stored
		tamperedLegacy := v.f.Legacy && (len(stc.Mut) > 0 || stc.Base == "hostile" || stc.Base == "raw")
		if tamperedLegacy {
			j.out.Probes.Add("out.of.scope", 1)
		}
		if !outOfScope && !tamperedLegacy && !isPrefix(D, v.content) {
			j.add("wrong-data", op.Op+"-"+contentKey(D, v.content), "R%d op %d: delivered %d bytes that are not a prefix of the reference content (%d bytes): %s", ri, opi, len(D), len(v.content), diffAt(D, v.content))
		}
		if clean && !outOfScope {
			// C05: the reference, run on exactly the consumed bytes, accepts them
			cons := r.Consumed
			if cons > len(stored) {
				cons = len(stored)
			}
			if rs.Srcs[r.Src].Bufio > 0 || rs.Srcs[r.Src].Seeker && src.Seeks > 0 {
				// a buffered source reads ahead: the consumed count says
				// nothing; judge against the frame the reference sees
				cons = len(stored)
				if v.valid && !v.f.Legacy && v.f.Consumed > 0 {
					cons = v.f.Consumed
				}
			}
			cv := verdictOf(stored[:cons])
			switch {
			case srcFault:
				j.add("fault-swallowed", "source-"+op.Op, "R%d op %d: the source failed (at offset %d) but %s completed cleanly", ri, opi, src.FaultPos, op.Op)
			case !cv.valid && cv.f.Legacy && !cv.trunc:
				// C05 is about the integrity fields of current-format
				// frames; legacy frames have none. Only truncation (C06)
				// is judged for them.
				j.out.Probes.Add("out.of.scope", 1)
			case !cv.valid:
				key := "accepted-invalid"
				if cv.trunc {
					key = "accepted-truncated:" + cv.f.ErrField
				} else if cv.f.Err != nil {
					key = "accepted-invalid:" + refErrKey(cv.f)
				}
				j.add("clean-end-unsound", key, "R%d op %d: %s completed cleanly after consuming %d bytes that the reference rejects (field %s: %v)", ri, opi, op.Op, cons, cv.f.ErrField, cv.f.Err)
			case cv.f.Consumed > cons && !cv.f.Legacy && !cv.empty:
				// (reading ahead of the frame end is not forbidden by any
				// property; stopping short of it while reporting success is)
				j.add("clean-end-unsound", "consumed-mismatch", "R%d op %d: consumed %d bytes, the frame ends at %d", ri, opi, cons, cv.f.Consumed)
			case !bytes.Equal(D, cv.content):
				j.add("clean-end-unsound", "content-"+contentKey(D, cv.content), "R%d op %d: clean end with %d bytes delivered, reference yields %d: %s", ri, opi, len(D), len(cv.content), diffAt(D, cv.content))
			default:
				j.out.Probes.Add("accepted.equal", 1)
			}
		}
		if !clean && !early {
			j.out.Probes.Add("rejected", 1)
			// C02/C16: only streams the harness did not tamper with must decode;
			// for mutated ones the permissive reference may accept what the
			// Reader legitimately refuses (C05 is one-directional).
			st := &rs.Srcs[r.Src].Stored
			pristine := len(st.Mut) == 0 && st.Cut == 0 && (st.Base == "sink" || st.Base == "lz4w" || st.Base == "refenc" || st.Base == "hostile" && st.Tail2 != nil)
			if v.valid && pristine && !v.empty && !srcFault && !sinkFault && !outOfScope && !v.f.FollowedByFrame {
				j.add("valid-rejected", op.Op+":"+r.Err.Class(), "R%d op %d: a valid stream read without faults ended with %s after %d of %d bytes", ri, opi, errStr(r.Err), len(D), len(v.content))
			}
			if op.Op == "drain" && r.Err.EOF && !r.Err.IsEOF && v.trunc {
				j.add("truncated-clean", "wrapped-eof:"+v.f.ErrField, "R%d op %d: truncated stream ended with an error that satisfies errors.Is(io.EOF): %s", ri, opi, r.Err.Msg)
			}
			if srcFault && !r.Err.Injected {
				j.add("error-not-faithful", "source-"+op.Op, "R%d op %d: the source failed with the injected error but %s returned %s", ri, opi, op.Op, errStr(r.Err))
			}
			if sinkFault && !srcFault && !r.Err.Injected {
				j.add("error-not-faithful", "writeto-sink", "R%d op %d: the WriteTo sink failed with the injected error but WriteTo returned %s", ri, opi, errStr(r.Err))
			}
		}
		if sinkFault && r.Err.Nil {
			j.add("fault-swallowed", "writeto-sink", "R%d op %d: the WriteTo sink failed but WriteTo returned nil", ri, opi)
		}
		// after the end of the stream Read keeps returning io.EOF without consuming
		if clean {
			for k := opi + 1; k < len(ro.Ops) && rs.Ops[k].Op == "read"; k++ {
				rr := ro.Ops[k]
				if rs.Ops[k].N == 0 {
					continue
				}
				if rr.N != 0 || !rr.Err.IsEOF {
					j.add("read-after-end", op.Op+":"+rr.Err.Class(), "R%d op %d: Read after the end of the stream returned n=%d err=%s", ri, k, rr.N, errStr(rr.Err))
				}
				if rr.Consumed != r.Consumed && rs.Srcs[r.Src].Bufio == 0 {
					j.add("read-after-end", "consumes-source", "R%d op %d: Read after the end of the stream consumed %d more source bytes", ri, k, rr.Consumed-r.Consumed)
				}
			}
		}
	}
}

// Judge evaluates a finished run.
func Judge(p *plan.Plan, out *Outcome) []Violation {
	j := &judge{p: p, out: out}
	j.judgeGlobal()
	if out.Stopped && (out.Deadlock != "" || out.Livelock) {
		return j.vs // nothing else is meaningful after a hang
	}
	for wi := range p.Writers {
		if out.W[wi].Finished {
			j.runWriterModel(wi, false)
		}
	}
	for ri := range p.Readers {
		if out.R[ri].Finished {
			if p.Kind == "lifecycleR" {
				j.judgeReaderLifecycle(ri)
			} else {
				j.judgeReaderBasic(ri)
			}
		}
	}
	j.judgeTwin()
	j.judgeSame()
	j.judgeEquiv()
	for ci := range p.CRs {
		j.judgeCR(ci)
	}
	switch p.Kind {
	case "hostile":
		j.judgeHostile()
	case "dependent":
		j.judgeDependent()
	}
	return j.vs
}
