package engine

import (
	"bytes"
)

// judgeReaderLifecycle replays the observed results of a Reader client
// against the reference lifecycle model (C17).
func (j *judge) judgeReaderLifecycle(ri int) {
	rs := &j.p.Readers[ri]
	ro := j.out.R[ri]
	epoch := 0
	cur := 0
	v := verdictOf(ro.Stored[0])
	pos := 0         // bytes delivered in this epoch
	started := false // a call that parses the header happened
	ended := false   // end of stream reported
	failed := false  // some call of this epoch returned an error other than EOF
	usedRead := false
	endConsumed := -1
	for opi, r := range ro.Ops {
		op := rs.Ops[opi]
		if r.Panic != "" {
			return
		}
		D := ro.Delivered[epoch]
		if r.Over > 0 {
			j.add("bad-count", "read-over", "R%d op %d: Read returned n > len(p)", ri, opi)
		}
		take := func(n int) []byte {
			if pos+n > len(D) {
				n = len(D) - pos
			}
			b := D[pos : pos+n]
			pos += n
			return b
		}
		checkData := func(got []byte, at int) bool {
			if at+len(got) > len(v.content) || !bytes.Equal(got, v.content[at:at+len(got)]) {
				j.add("wrong-data", op.Op+"-lifecycle", "R%d op %d (%s): returned %d bytes at content offset %d that differ from the reference content (%d bytes)", ri, opi, op.Op, len(got), at, len(v.content))
				return false
			}
			return true
		}
		switch op.Op {
		case "reset":
			epoch++
			cur = op.Src
			v = verdictOf(ro.Stored[cur])
			pos, started, ended, failed, usedRead, endConsumed = 0, false, false, false, false, -1
			continue
		case "apply":
			if !started && !failed {
				if !r.Err.Nil {
					j.add("unjustified-error", "reader-apply", "R%d op %d: Apply on a fresh Reader failed: %s", ri, opi, r.Err.Msg)
					failed = true
				}
			} else if !r.Err.Nil {
				failed = true
				j.out.Probes.Add("misuse.call", 1)
			}
			continue
		case "size":
			want := 0
			if started && !failed && v.f.HasSize && v.f.HeaderSeen {
				want = int(v.f.ContentSize)
			}
			if !failed && r.Size != want {
				j.add("size", "", "R%d op %d: Size() = %d, expected %d (header read: %v)", ri, opi, r.Size, want, started)
			}
			continue
		}
		// read / drain / writeto
		at := pos
		got := take(int(r.N))
		if ended {
			// after the end of the stream: io.EOF (WriteTo: nothing, nil) and no consumption
			switch op.Op {
			case "read", "drain":
				if op.Op == "read" && op.N == 0 {
					break
				}
				if r.N != 0 || !r.Err.IsEOF && !failed {
					j.add("read-after-end", "lifecycle:"+r.Err.Class(), "R%d op %d: %s after the end of the stream returned n=%d err=%s", ri, opi, op.Op, r.N, errStr(r.Err))
				}
			case "writeto":
				if r.N != 0 {
					j.add("read-after-end", "writeto-data", "R%d op %d: WriteTo after the end of the stream wrote %d bytes", ri, opi, r.N)
				}
			}
			if endConsumed >= 0 && r.Consumed != endConsumed {
				j.add("read-after-end", "consumes-source", "R%d op %d: %s after the end of the stream consumed %d more source bytes", ri, opi, op.Op, r.Consumed-endConsumed)
				endConsumed = r.Consumed
			}
			continue
		}
		if !checkData(got, at) {
			return
		}
		if op.Op == "read" && op.N == 0 {
			// a zero-length Read may or may not parse the header
			if r.N != 0 {
				j.add("bad-count", "read-zero", "R%d op %d: Read(len 0) returned n=%d", ri, opi, r.N)
			}
			if !r.Err.Nil {
				if !r.Err.IsEOF || len(v.content) != 0 {
					failed = failed || !r.Err.EOF
				}
			}
			if r.Consumed > 0 {
				started = true
				usedRead = true
			}
			continue
		}
		mixed := op.Op == "writeto" && usedRead
		started = true
		if op.Op != "writeto" {
			usedRead = true
		}
		cleanEnd := (op.Op != "writeto" && r.Err.IsEOF) || (op.Op == "writeto" && r.Err.Nil)
		switch {
		case cleanEnd:
			if failed {
				// a failed object that later reports a clean end must still be right
			}
			if !v.valid {
				j.add("clean-end-unsound", "lifecycle", "R%d op %d: %s reported the end of a stream the reference rejects (%v)", ri, opi, op.Op, v.f.Err)
			} else if pos != len(v.content) {
				j.add("clean-end-unsound", "lifecycle-content-"+contentKey(D[:pos], v.content), "R%d op %d: %s reported the end of the stream after %d of %d bytes", ri, opi, op.Op, pos, len(v.content))
			} else if !v.f.Legacy && r.Consumed < v.f.Consumed {
				j.add("read-after-end", "over-consumed", "R%d op %d: at the end of the stream %d source bytes were consumed, the frame ends at %d", ri, opi, r.Consumed, v.f.Consumed)
			}
			ended = true
			endConsumed = r.Consumed
		case r.Err.Nil:
			// more to come
			if op.Op == "drain" && op.Max == 0 {
				j.add("no-progress", "drain", "R%d op %d: drain stopped without an error", ri, opi)
			}
		default:
			// an error other than the end of the stream
			if v.valid && !failed && !mixed {
				j.add("unjustified-error", "reader-"+op.Op, "R%d op %d: %s on a healthy Reader over a valid stream failed: %s", ri, opi, op.Op, r.Err.Msg)
			}
			if mixed {
				j.out.Probes.Add("misuse.call", 1)
				if r.N != 0 {
					j.add("misuse-partial", "writeto-after-read", "R%d op %d: WriteTo after Read failed but wrote %d bytes", ri, opi, r.N)
				}
			}
			failed = true
		}
	}
}
