package engine

import (
	"bytes"
	"fmt"
	"strings"

	"verif/sim/plan"

	"verif/sim/ref"
)

// judgeTwin: what reached a writer sink before its first injected fault is a
// byte prefix of the fault-free output (C15).
func (j *judge) judgeTwin() {
	tw := j.out.TwinSinks
	if tw == nil {
		return
	}
	for wi, w := range j.out.W {
		if wi >= len(tw) {
			break
		}
		for si, s := range w.Sinks {
			if si >= len(tw[wi]) {
				break
			}
			if s.FaultAt < 0 {
				// no fault fired on this sink: the whole sink must equal the twin's
				continue
			}
			got := s.Buf
			if s.FaultAt <= len(got) {
				got = got[:s.FaultAt]
			}
			if !isPrefix(got, tw[wi][si]) {
				j.add("sink-not-prefix", "", "W%d sink %d: the %d bytes accepted before the fault (call %d) are not a prefix of the fault-free output (%d bytes): %s", wi, si, len(got), s.FaultCall, len(tw[wi][si]), diffAt(got, tw[wi][si]))
			} else if !isPrefix(s.Buf, tw[wi][si]) {
				// The Writer went on writing this frame after the failed call
				// and left a hole: what the sink holds is no longer a prefix
				// of the fault-free output. (A writer that retried the failed
				// bytes successfully would still produce a prefix.)
				j.add("sink-not-prefix", "after-fault", "W%d sink %d: after the failed call %d the Writer appended %d more bytes; the sink (%d bytes) is not a prefix of the fault-free output: %s", wi, si, s.FaultCall, s.AfterFault, len(s.Buf), diffAt(s.Buf, tw[wi][si]))
			}
			j.out.Probes.Add("sentinel.behind.pending", 0)
		}
	}
}

// judgeSame: byte-identical sinks (C14) and identical reader observations
// under different fragmentation (C15).
func (j *judge) judgeSame() {
	// The judged stream of a writer client is its last one (what follows its
	// last Reset; everything before is history of the object). Two clients are
	// compared only if they were offered the same bytes under the same
	// settings (a minimised plan may have shortened one of them).
	stream := func(wi int) (acc []byte, sink int) {
		ws, wo := j.p.Writers[wi], j.out.W[wi]
		for opi := range wo.Ops {
			if opi >= len(ws.Ops) {
				break
			}
			if op := ws.Ops[opi]; op.Op == "reset" || op.Op == "renew" {
				acc, sink = nil, op.Sink
				continue
			}
			if opi < len(wo.Accepted) {
				acc = append(acc, wo.Accepted[opi]...)
			}
		}
		return
	}
	settings := func(wi int) plan.WOpts {
		ws, wo := j.p.Writers[wi], j.out.W[wi]
		o := ws.Opts
		for opi := range wo.Ops {
			if opi < len(ws.Ops) && ws.Ops[opi].Op == "apply" && ws.Ops[opi].Opts != nil && wo.Ops[opi].Err.Nil {
				o = *ws.Ops[opi].Opts
			}
		}
		o.Conc, o.HYield = 0, 0
		return o
	}
	for _, grp := range j.p.Same {
		if len(grp) < 2 {
			continue
		}
		a := j.out.W[grp[0]]
		if !a.Finished || len(a.Sinks) == 0 {
			continue
		}
		accA, sa := stream(grp[0])
		for _, bi := range grp[1:] {
			b := j.out.W[bi]
			if !b.Finished || len(b.Sinks) == 0 {
				continue
			}
			accB, sb := stream(bi)
			if sa >= len(a.Sinks) || sb >= len(b.Sinks) || settings(grp[0]) != settings(bi) || !bytes.Equal(accA, accB) {
				j.out.Probes.Add("same.not.comparable", 1)
				continue
			}
			if sb > 0 {
				j.out.Probes.Add("same.after.history", 1)
			}
			if !bytes.Equal(a.Sinks[sa].Buf, b.Sinks[sb].Buf) {
				j.add("output-differs", fmt.Sprintf("conc%d-vs-conc%d", concKey(j.p.Writers[grp[0]].Opts.Conc), concKey(j.p.Writers[bi].Opts.Conc)),
					"W%d (%d bytes) and W%d (%d bytes, sink %d) compressed the same input with the same settings into different bytes: %s",
					grp[0], len(a.Sinks[sa].Buf), bi, len(b.Sinks[sb].Buf), sb, diffAt(a.Sinks[sa].Buf, b.Sinks[sb].Buf))
			}
		}
	}
	for _, grp := range j.p.SameR {
		if len(grp) < 2 {
			continue
		}
		a := j.out.R[grp[0]]
		if !a.Finished || len(a.Ops) == 0 {
			continue
		}
		for _, bi := range grp[1:] {
			b := j.out.R[bi]
			if !b.Finished || len(b.Ops) == 0 {
				continue
			}
			ea, eb := a.Ops[0].Err, b.Ops[0].Err
			if ea.Class() != eb.Class() || !bytes.Equal(a.Delivered[0], b.Delivered[0]) {
				j.add("fragmentation-dependent", j.p.Readers[grp[0]].Srcs[0].Frag.Policy+"-vs-"+j.p.Readers[bi].Srcs[0].Frag.Policy,
					"R%d (%s) delivered %d bytes and ended with %q; R%d (%s) delivered %d bytes and ended with %q on the same stored bytes",
					grp[0], j.p.Readers[grp[0]].Srcs[0].Frag.Policy, len(a.Delivered[0]), ea.Class(),
					bi, j.p.Readers[bi].Srcs[0].Frag.Policy, len(b.Delivered[0]), eb.Class())
			}
		}
	}
	// package-level block calls: identical arguments, identical result
	type key struct {
		in, off, l, depth, dst int
		hc                     bool
	}
	seen := map[key][2]uint64{}
	for bi, b := range j.out.B {
		for ci, c := range j.p.Blocks[bi].Calls {
			if ci >= len(b.N) {
				break
			}
			k := key{c.In, c.Off, c.Len, c.Depth, c.Dst, c.HC}
			cur := [2]uint64{uint64(b.N[ci]), b.Hash[ci]}
			if prev, ok := seen[k]; ok {
				if prev != cur {
					j.add("block-output-differs", fmt.Sprintf("hc=%v", c.HC), "B%d call %d: the same block compression call returned n=%d (hash %x), earlier n=%d (hash %x)", bi, ci, cur[0], cur[1], prev[0], prev[1])
				}
			} else {
				seen[k] = cur
			}
		}
	}
}

func concKey(c int) int {
	if c <= 0 {
		return 0
	}
	return c
}

// judgeEquiv: Reset makes the object indistinguishable from a new one (C17).
func (j *judge) judgeEquiv() {
	for _, e := range j.p.Equiv {
		a, b := j.out.W[e.A], j.out.W[e.B]
		if !a.Finished || !b.Finished {
			continue
		}
		na, nb := len(a.Ops)-e.FromA, len(b.Ops)-e.FromB
		if na != nb || na < 0 {
			continue
		}
		for k := 0; k < na; k++ {
			ra, rb := a.Ops[e.FromA+k], b.Ops[e.FromB+k]
			if ra.N != rb.N || ra.Err.Class() != rb.Err.Class() {
				j.add("reset-not-equivalent", "result:"+ra.Op, "after Reset, W%d op %d (%s) returned n=%d err=%q; on a new Writer the same call returned n=%d err=%q", e.A, e.FromA+k, ra.Op, ra.N, ra.Err.Class(), rb.N, rb.Err.Class())
				return
			}
		}
		sa := a.Sinks[e.SinkA].Buf
		sb := b.Sinks[e.SinkB].Buf
		if !bytes.Equal(sa, sb) {
			j.add("reset-not-equivalent", "output", "after Reset, W%d emitted %d bytes; a new Writer with the same options and calls emitted %d bytes: %s", e.A, len(sa), len(sb), diffAt(sa, sb))
		}
		j.out.Probes.Add("reset.equiv.checked", 1)
	}
}

// judgeDependent: dependent-block frames decode sequentially whatever the
// concurrency option says (C16). Content equality is judgeReaderBasic's job.
func (j *judge) judgeDependent() {
	for ri, r := range j.out.R {
		if len(r.Stored) == 0 {
			continue
		}
		v := verdictOf(r.Stored[0])
		if v.valid && !v.f.BlockIndep && !v.f.Legacy {
			if j.out.Spawned > 0 {
				j.add("dependent-concurrent", "", "R%d: %d library goroutines were started while decoding a frame with dependent blocks", ri, j.out.Spawned)
			} else if j.p.Readers[ri].Conc != 1 {
				j.out.Probes.Add("fallback.sequential", 1)
			}
			j.out.Probes.Add("offset.65535", int64(v.f.Stats.Off65535))
			j.out.Probes.Add("cross.block.match", int64(v.f.Stats.DictMatches))
		}
	}
}

// judgeHostile: C07's clauses beyond the global invariants.
func (j *judge) judgeHostile() {
	for ri, r := range j.out.R {
		if len(r.Stored) == 0 || len(r.Ops) == 0 {
			continue
		}
		stored := r.Stored[0]
		f := ref.Parse(stored, ref.ParseOpt{})
		op := r.Ops[0]
		D := r.Delivered[0]
		if f.Err == ref.ErrBadMagic && f.Skipped == 0 {
			// a first word that is not a frame magic is reported as an invalid frame
			if !op.Err.InvalidFrame || len(D) != 0 {
				j.add("bad-magic-not-invalid-frame", fmt.Sprintf("%08x", first4(stored)), "R%d: first word %08x is not a frame magic; the Reader returned %d bytes and err=%s", ri, first4(stored), len(D), errStr(op.Err))
			}
		}
		// Memory: never in proportion to attacker-controlled fields beyond the
		// declared block maximum. Judged on bytes allocated during the run
		// (live memory cannot be observed): every block costs at least four
		// input bytes and at most two block-sized buffers, plus the pipeline
		// depth, plus a constant for the harness itself.
		bm := f.BlockMax
		if bm == 0 || f.Legacy {
			bm = 8 << 20
		}
		n := j.p.Readers[ri].Conc
		if n <= 0 {
			n = j.p.Procs
		}
		if n <= 0 {
			n = 16
		}
		// a destination that can grow must not be asked to grow by an
		// attacker-controlled amount: at most what was actually delivered
		// plus a few blocks
		for _, wt := range r.WTSinks {
			if lim := 2*len(D) + 8*bm + (1 << 20); wt.MaxGrow > lim {
				j.add("memory", "grow", "R%d: the WriteTo destination was asked to grow by %d bytes while %d bytes were delivered (block maximum %d)", ri, wt.MaxGrow, len(D), bm)
			}
		}
		allocLimit := uint64(96<<20) + 16*uint64(len(stored)) + (uint64(len(stored)/4)+uint64(4*n+16))*2*uint64(bm)
		if j.out.AllocBytes > allocLimit {
			j.add("memory", "alloc", "R%d: %d bytes allocated while reading a %d-byte stream (bound %d, block maximum %d)", ri, j.out.AllocBytes, len(stored), allocLimit, bm)
		}
	}
}

func first4(b []byte) uint32 {
	if len(b) < 4 {
		return 0
	}
	return uint32(b[0]) | uint32(b[1])<<8 | uint32(b[2])<<16 | uint32(b[3])<<24
}

// judgeCR: the compressing reader (C18).
func (j *judge) judgeCR(ci int) {
	c := j.out.C[ci]
	cp := &j.p.CRs[ci]
	for c != nil && cp != nil {
		j.judgeCRStream(ci, c, cp)
		c, cp = c.Next, cp.Next
	}
}

func (j *judge) judgeCRStream(ci int, c *COut, cp *plan.CScript) {
	if c.Panic != "" {
		first := c.Panic
		if i := strings.IndexByte(first, '\n'); i > 0 {
			first = first[:i]
		}
		j.add("panic", panicKey(first), "%s", c.Panic)
		return
	}
	if !c.Finished {
		return
	}
	if c.Over > 0 {
		j.add("bad-count", "cr-read", "C%d: Read returned n outside [0, len(p)] %d time(s)", ci, c.Over)
	}
	if c.ZeroNil > 0 {
		j.add("no-progress", "cr-zero-nil", "C%d: Read returned (0, nil) for a non-empty buffer %d time(s)", ci, c.ZeroNil)
	}
	srcFault := c.Src.FaultPos >= 0
	switch {
	case srcFault:
		if !c.Final.Injected {
			j.add("error-not-faithful", "cr-source", "C%d: the source failed with the injected error; the compressing reader ended with %s", ci, errStr(c.Final))
		}
		// what was produced must be a prefix of a valid frame of a prefix of the input
		if len(c.Out) > 0 {
			f := ref.Parse(c.Out, ref.ParseOpt{Prefix: true})
			if f.Err != nil {
				j.add("partial-frame-invalid", "cr:"+refErrKey(f), "C%d: bytes produced before the source error are not a prefix of a valid frame: %v", ci, f.Err)
			} else if !isPrefix(f.Content, c.Input) {
				j.add("partial-frame-content", "cr", "C%d: decoded output is not a prefix of the input: %s", ci, diffAt(f.Content, c.Input))
			}
		}
		return
	case c.Capped:
		// the harness stopped reading (its own cap on the number of calls):
		// nothing can be said about the rest of the stream
		j.out.Probes.Add("out.of.scope", 1)
		return
	case !c.Final.IsEOF:
		j.add("unjustified-error", "cr-read", "C%d: reading ended with %s after %d calls and %d bytes without any source fault", ci, errStr(c.Final), c.Calls, len(c.Out))
		return
	}
	f := ref.Parse(c.Out, ref.ParseOpt{Strict: true})
	if f.Err != nil {
		j.add("frame-invalid", "cr:"+refErrKey(f), "C%d: the concatenated output is rejected by the reference parser at field %s: %v", ci, f.ErrField, f.Err)
		return
	}
	if f.Consumed != len(c.Out) {
		j.add("frame-trailing-bytes", "cr", "C%d: %d bytes after the end of the frame", ci, len(c.Out)-f.Consumed)
	}
	if !bytes.Equal(f.Content, c.Input) {
		j.add("frame-content", "cr-"+contentKey(f.Content, c.Input), "C%d: decoded content (%d bytes) differs from the source (%d bytes): %s", ci, len(f.Content), len(c.Input), diffAt(f.Content, c.Input))
	}
	o := cp.Opts
	if o.Default {
		o.BS, o.CSum = 7, true
	}
	if optsValid(o) && c.ApplyErr.Nil {
		bs := o.BS
		if bs == 0 {
			bs = 7
		}
		if f.BlockMaxIdx != bs {
			j.add("frame-options", "cr-block-size", "C%d: block size code %d, configured %d", ci, f.BlockMaxIdx, bs)
		}
		if f.BlockSum != o.BSum {
			j.add("frame-options", "cr-block-checksum", "C%d: block checksum flag %v, configured %v", ci, f.BlockSum, o.BSum)
		}
		if f.ContentSum != o.CSum {
			j.add("frame-options", "cr-content-checksum", "C%d: content checksum flag %v, configured %v", ci, f.ContentSum, o.CSum)
		}
		var want uint64
		has := false
		switch {
		case o.Size == -1:
			want, has = uint64(len(c.Input)), len(c.Input) > 0
		case o.Size > 0:
			want, has = uint64(o.Size), true
		}
		if f.HasSize != has || has && f.ContentSize != want {
			j.add("frame-options", "cr-content-size", "C%d: content size present=%v value=%d, configured present=%v value=%d", ci, f.HasSize, f.ContentSize, has, want)
		}

	} else if !optsValid(o) && c.ApplyErr.Nil {
		j.add("invalid-option-accepted", "cr", "C%d: Apply accepted invalid options %+v", ci, o)
	}
	if !c.AfterEOF.Nil && !c.AfterEOF.IsEOF {
		// after io.EOF a further Read must not produce data; an error is fine
	}
	// overflow-state probes: pending overflow larger / equal / smaller than the next buffer
	for i := 0; i+1 < len(c.Lens) && i+1 < len(c.Asked); i++ {
		if c.Lens[i] == c.Asked[i] && c.Asked[i] > 0 {
			switch {
			case c.Lens[i+1] == c.Asked[i+1] && c.Asked[i+1] > 0:
				j.out.Probes.Add("cr.overflow.gt", 1)
			case c.Lens[i+1] > 0:
				j.out.Probes.Add("cr.overflow.lt", 1)
			}
		}
	}
}
