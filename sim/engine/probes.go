package engine

// Probes are reach counters ("this rare condition was hit") and fired-fault
// counters. Fixed array, no map: it is touched from hooks.
type Probes struct {
	c [nProbes]int64
}

var probeNames = []string{
	"sink.fail", "sink.short", "sink.stall", "sink.forever",
	"src.err0", "src.errn", "src.zero", "src.stall", "src.eofdata",
	"corrupt.flip", "corrupt.set", "corrupt.struct", "cut",
	"queue.full.at.enqueue", "worker.overtake", "error.latched.inflight", "handler.after.return",
	"pool.reissue", "decode.direct", "decode.buffered", "raw.block.emitted",
	"reader.abandoned", "leak.judged.epochs", "lib.goroutines",
	"accepted.equal", "rejected", "out.of.scope", "header.anomaly",
	"cr.overflow.gt", "cr.overflow.eq", "cr.overflow.lt", "cr.zero.len.read",
	"fallback.sequential", "offset.65535", "cross.block.match",
	"flush.barrier.checked", "reset.equiv.checked", "misuse.call",
	"sentinel.behind.pending", "legacy", "skippable.skipped",
	"same.after.history", "same.not.comparable",
}

const nProbes = 48

var probeIndex = func() map[string]int {
	if len(probeNames) > nProbes {
		panic("nProbes too small")
	}
	m := map[string]int{}
	for i, n := range probeNames {
		m[n] = i
	}
	return m
}()

// Add bumps a probe. The name lookup reads an immutable map built at init.
//
//go:norace
func (p *Probes) Add(name string, n int64) {
	if p == nil {
		return
	}
	i, ok := probeIndex[name]
	if !ok {
		panic("unknown probe " + name)
	}
	p.c[i] += n
}

func (p *Probes) Get(name string) int64 { return p.c[probeIndex[name]] }

func (p *Probes) Merge(o *Probes) {
	for i := range p.c {
		p.c[i] += o.c[i]
	}
}

func (p *Probes) Map() map[string]int64 {
	m := map[string]int64{}
	for i, n := range probeNames {
		m[n] = p.c[i]
	}
	return m
}
