package engine

import (
	"verif/sim/plan"
)

// Agg accumulates coverage over the runs of one worker.
type Agg struct {
	Runs    int
	Execs   int
	Steps   int64
	Traces  map[uint64]struct{}
	States  map[uint64]struct{}
	Plans   map[uint64]struct{} // distinct non-trivial concrete plans
	Probes  Probes
	Samples []*plan.Plan
	Kinds   map[string]int
}

func NewAgg() *Agg {
	return &Agg{Traces: map[uint64]struct{}{}, States: map[uint64]struct{}{}, Plans: map[uint64]struct{}{}, Kinds: map[string]int{}}
}

type AggSummary struct {
	Runs    int              `json:"runs"`
	Execs   int              `json:"execs"`
	Steps   int64            `json:"steps"`
	Traces  int              `json:"traces"`
	States  int              `json:"states"`
	Plans   int              `json:"plans"`
	Probes  map[string]int64 `json:"probes"`
	Samples []*plan.Plan     `json:"samples"`
	Kinds   map[string]int   `json:"kinds"`
}

func (a *Agg) Summary() AggSummary {
	return AggSummary{a.Runs, a.Execs, a.Steps, len(a.Traces), len(a.States), len(a.Plans), a.Probes.Map(), a.Samples, a.Kinds}
}

func (a *Agg) note(p *plan.Plan, out *Outcome) {
	if a == nil {
		return
	}
	a.Execs++
	a.Steps += int64(out.Steps)
	if out.TraceHash != 0 {
		a.Traces[out.TraceHash] = struct{}{}
	}
	if out.World != nil {
		for h := range out.World.states {
			a.States[h] = struct{}{}
		}
	}
	a.Probes.Merge(out.Probes)
	if nontrivial(p, out) {
		a.Plans[p.Hash()] = struct{}{}
	}
}

// nontrivial: the run spawned at least one library goroutine or fired at
// least one fault, or (sequential scenarios) executed at least two calls on
// an object that moved data.
func nontrivial(p *plan.Plan, out *Outcome) bool {
	if out.Spawned > 0 {
		return true
	}
	for _, n := range []string{"sink.fail", "sink.short", "src.err0", "src.errn", "src.zero", "corrupt.flip", "corrupt.set", "corrupt.struct", "cut"} {
		if out.Probes.Get(n) > 0 {
			return true
		}
	}
	for _, w := range out.W {
		if len(w.Ops) >= 2 {
			return true
		}
	}
	for _, r := range out.R {
		if len(r.Ops) >= 1 && len(r.Stored) > 0 && len(r.Stored[0]) > 0 {
			return true
		}
	}
	for _, c := range out.C {
		if c.Calls >= 2 {
			return true
		}
	}
	return false
}

// withExplicitSchedule converts a plan to explicit-schedule form.
func withExplicitSchedule(p *plan.Plan, out *Outcome) *plan.Plan {
	q := p.Clone()
	q.Enum = nil
	if out.World != nil {
		q.Sched.Policy = "explicit"
		q.Sched.Choices = nil
		for _, c := range out.World.trace {
			q.Sched.Choices = append(q.Sched.Choices, int(c))
		}
	}
	return q
}

// RunPlan executes a plan (expanding its enumeration, if any), judges every
// execution and returns the first failing one.
func RunPlan(ex *Executor, p *plan.Plan, agg *Agg) Result {
	res := Result{Index: p.Index}
	if agg != nil {
		agg.Runs++
		agg.Kinds[p.Kind]++
		if len(agg.Samples) < 3 {
			agg.Samples = append(agg.Samples, p)
		}
	}
	one := func(q *plan.Plan) bool {
		var twin [][][]byte
		if q.Twin {
			twin = twinFor(ex, q, agg)
		}
		out := ex.Execute(q)
		out.TwinSinks = twin
		res.Execs++
		res.Steps += out.Steps
		if res.TraceHash == 0 {
			res.TraceHash = out.TraceHash
		} else {
			res.TraceHash = res.TraceHash*1099511628211 ^ out.TraceHash
		}
		res.Spawned += out.Spawned
		vs := Judge(q, out)
		agg.note(q, out)
		if nontrivial(q, out) {
			res.Nontrivial = true
		}
		if len(vs) > 0 {
			res.Violations = vs
			fp := withExplicitSchedule(q, out)
			fp.Expect = vs[0].Sig()
			fp.Race = vs[0].Class == "race"
			res.Plan = fp
			return false
		}
		return true
	}
	if p.Enum == nil {
		one(p)
		return res
	}
	for _, q := range Expand(ex, p, &res, agg) {
		if !one(q) {
			break
		}
	}
	return res
}

// Expand is filled in by enum.go.
var Expand = func(ex *Executor, p *plan.Plan, res *Result, agg *Agg) []*plan.Plan { return nil }
