package engine

import (
	"bufio"
	"encoding/binary"
	"encoding/json"
	"fmt"
	"os"
	"runtime"
	"runtime/debug"
	"strconv"
	"testing"
	"time"

	"verif/sim/plan"
)

// Result is what a worker reports for one run (one JSON line).
type Result struct {
	Index      int         `json:"index"`
	Violations []Violation `json:"violations,omitempty"`
	Plan       *plan.Plan  `json:"plan,omitempty"` // concrete failing plan with explicit schedule
	Steps      int         `json:"steps"`
	Execs      int         `json:"execs"`
	TraceHash  uint64      `json:"trace_hash"`
	Spawned    int         `json:"spawned"`
	Nontrivial bool        `json:"nontrivial"`
}

func envInt(name string, def int) int {
	if v := os.Getenv(name); v != "" {
		n, err := strconv.ParseInt(v, 10, 64)
		if err == nil {
			return int(n)
		}
	}
	return def
}

func envU64(name string, def uint64) uint64 {
	if v := os.Getenv(name); v != "" {
		n, err := strconv.ParseUint(v, 10, 64)
		if err == nil {
			return n
		}
	}
	return def
}

func startWatchdog(limit time.Duration) {
	go func() {
		for {
			time.Sleep(2 * time.Second)
			b := watchdogBeat.Load()
			if b != 0 && time.Since(time.Unix(0, b)) > limit {
				fmt.Fprintf(os.Stderr, "WATCHDOG run=%d exceeded %v\n", watchdogRun.Load(), limit)
				buf := make([]byte, 1<<20)
				n := runtime.Stack(buf, true)
				os.Stderr.Write(buf[:n])
				os.Exit(3)
			}
		}
	}()
}

// TestWorker is the entry point of a simulation worker process. Environment:
// SIM_PROP, SIM_TIER, SIM_SEED, SIM_FROM, SIM_TO, SIM_STRIDE (run indices
// FROM, FROM+STRIDE, ... < TO), SIM_OUT (result file), SIM_BUDGET_MS
// (wall-clock budget after which the worker stops starting new runs),
// or SIM_REPLAY (a plan file to execute once).
func TestWorker(t *testing.T) {
	prop := os.Getenv("SIM_PROP")
	if prop == "" && os.Getenv("SIM_REPLAY") == "" {
		t.Skip("not a worker invocation")
	}
	outPath := os.Getenv("SIM_OUT")
	var outF *os.File
	var err error
	if outPath != "" {
		outF, err = os.Create(outPath)
		if err != nil {
			t.Fatal(err)
		}
		defer outF.Close()
	} else {
		outF = os.Stdout
	}
	bw := bufio.NewWriterSize(outF, 1<<16)
	defer bw.Flush()
	emit := func(kind string, v interface{}) {
		b, _ := json.Marshal(v)
		fmt.Fprintf(bw, "%s %s\n", kind, b)
	}
	// C07: a small stack limit turns unbounded recursion into a (replayable)
	// fatal stack overflow with inputs of a few MiB instead of hundreds.
	// An iterative implementation uses O(1) stack whatever the limit.
	debug.SetMaxStack(48 << 20)
	startWatchdog(time.Duration(envInt("SIM_WATCHDOG_S", 300)) * time.Second)
	ex := &Executor{T: t}
	agg := NewAgg()

	if rp := os.Getenv("SIM_REPLAY"); rp != "" {
		b, err := os.ReadFile(rp)
		if err != nil {
			t.Fatal(err)
		}
		p, err := plan.Parse(b)
		if err != nil {
			t.Fatal(err)
		}
		watchdogBeat.Store(time.Now().UnixNano())
		fmt.Fprintf(bw, "START %d\n", p.Index)
		bw.Flush()
		res := RunPlan(ex, p, agg)
		emit("RESULT", res)
		emit("AGG", agg.Summary())
		return
	}

	tier := os.Getenv("SIM_TIER")
	seed := envU64("SIM_SEED", 1)
	from, to, stride := envInt("SIM_FROM", 0), envInt("SIM_TO", 100), envInt("SIM_STRIDE", 1)
	budget := time.Duration(envInt("SIM_BUDGET_MS", 0)) * time.Millisecond
	start := time.Now()
	recheck := envInt("SIM_RECHECK", 100)
	maxViol := envInt("SIM_MAXVIOL", 40)
	nviol := 0
	var tracelog *bufio.Writer
	if tp := os.Getenv("SIM_TRACELOG"); tp != "" {
		if f, err := os.Create(tp); err == nil {
			defer f.Close()
			tracelog = bufio.NewWriter(f)
		}
	}
	stopFile := os.Getenv("SIM_STOPFILE")
	for i := from; i < to; i += stride {
		if budget > 0 && time.Since(start) > budget {
			break
		}
		if stopFile != "" {
			// race-detector workers are an extra on top of the plain ones:
			// they stop once every plain worker has finished its share
			if _, err := os.Stat(stopFile); err == nil {
				break
			}
		}
		watchdogRun.Store(int64(i))
		watchdogBeat.Store(time.Now().UnixNano())
		fmt.Fprintf(bw, "START %d\n", i)
		bw.Flush()
		p := plan.Gen(prop, tier, seed, i)
		res := RunPlan(ex, p, agg)
		if len(res.Violations) > 0 {
			emit("RESULT", res)
			nviol++
			if nviol >= maxViol {
				break
			}
		} else if recheck > 0 && (i/stride)%recheck == 0 {
			// determinism self-check: re-execute in place and compare
			p2 := plan.Gen(prop, tier, seed, i)
			res2 := RunPlan(ex, p2, nil)
			if res2.TraceHash != res.TraceHash || res2.Steps != res.Steps || len(res2.Violations) != 0 {
				emit("NONDET", map[string]interface{}{"index": i, "a": res.TraceHash, "b": res2.TraceHash, "steps_a": res.Steps, "steps_b": res2.Steps})
			}
		}
		fmt.Fprintf(bw, "DONE %d\n", i)
		if tracelog != nil {
			fmt.Fprintf(tracelog, "%d %016x %d %d %d\n", i, res.TraceHash, res.Steps, res.Execs, len(res.Violations))
		}
	}
	if tracelog != nil {
		tracelog.Flush()
	}
	watchdogBeat.Store(0)
	emit("AGG", agg.Summary())
	if hp := os.Getenv("SIM_HASHES"); hp != "" {
		f, err := os.Create(hp)
		if err == nil {
			w := bufio.NewWriter(f)
			var b [9]byte
			put := func(tag byte, m map[uint64]struct{}) {
				for h := range m {
					b[0] = tag
					binary.LittleEndian.PutUint64(b[1:], h)
					w.Write(b[:])
				}
			}
			put('T', agg.Traces)
			put('S', agg.States)
			put('P', agg.Plans)
			w.Flush()
			f.Close()
		}
	}
}
