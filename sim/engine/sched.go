// Package engine is the deterministic simulator: a seeded scheduler that owns
// every hooked scheduling point of the library's pipelines (one goroutine runs
// at a time, chosen by the plan's PRNG), simulated sources and sinks, the
// adversarial buffer pool, the plan executor and the property oracles.
package engine

import (
	"runtime"
	"sync"
	"testing/synctest"

	"verif/sim/plan"
)

const (
	gSpawned = iota
	gRunning
	gParked
	gDone
)

// G is the simulator's record of one goroutine.
type G struct {
	id       int
	kind     string // "client:W0", "W.collector", "W.worker", ...
	client   int    // index of the client this goroutine descends from
	epoch    int    // lifecycle epoch of that client at spawn time
	goid     uint64
	wake     chan struct{}
	state    int
	site     string // site it is parked at
	last     string // last site it passed
	isClient bool
	prio     int
	nsteps   int
}

// ClientState is what the leak verdict needs to know about a client.
type ClientState struct {
	name   string
	epoch  int
	judged []bool // per epoch: a lifecycle event after which no goroutine may remain
	done   bool
	g      *G
}

// World is one simulated run (one synctest bubble).
type World struct {
	mu      sync.Mutex
	gs      []*G
	clients []*ClientState
	sp      plan.Sched
	rng     *plan.Rand
	last    *G
	steps   int
	max     int
	trace   []int32
	thash   uint64 // hash of (kind@site) choice sequence
	states  map[uint64]struct{}
	changeP []int // PCT change points
	rrNext  int

	Deadlock  string
	Livelock  bool
	Leaks     []string
	Abandoned int
	probes    *Probes
	pool      *SimPool
	spawned   int // library goroutines spawned
	join      chan struct{}
}

const maxGoroutines = 1 << 14

// theWorld is the world hooks dispatch to. It is written by the bubble root
// before any goroutine of the run exists.
var theWorld *World

//go:norace
func curGoid() uint64 {
	var buf [64]byte
	n := runtime.Stack(buf[:], false)
	// "goroutine 123 ["
	var id uint64
	for i := len("goroutine "); i < n; i++ {
		c := buf[i]
		if c < '0' || c > '9' {
			break
		}
		id = id*10 + uint64(c-'0')
	}
	return id
}

//go:norace
func (w *World) cur() *G {
	id := curGoid()
	w.mu.Lock()
	var g *G
	for i := len(w.gs) - 1; i >= 0; i-- {
		if w.gs[i].goid == id {
			g = w.gs[i]
			break
		}
	}
	w.mu.Unlock()
	return g
}

// park blocks the calling goroutine until the scheduler releases it.
//
//go:norace
func (w *World) park(g *G, site string) {
	g.site = site
	g.state = gParked
	<-g.wake
	g.last = site
}

//go:norace
func hookYield(site string) {
	w := theWorld
	if w == nil {
		return
	}
	raceDisable()
	if g := w.cur(); g != nil {
		w.park(g, site)
	}
	raceEnable()
}

//go:norace
func hookSpawn(site string) int {
	w := theWorld
	if w == nil {
		return 0
	}
	raceDisable()
	tok := 0
	if p := w.cur(); p != nil {
		w.mu.Lock()
		if len(w.gs) >= maxGoroutines {
			panic("simulator: too many goroutines in one run")
		}
		g := &G{id: len(w.gs), kind: site, client: p.client, epoch: p.epoch, wake: make(chan struct{})}
		if p.isClient {
			g.epoch = w.clients[p.client].epoch
		}
		g.prio = w.newPrio()
		w.gs = append(w.gs, g)
		w.spawned++
		tok = g.id + 1
		w.mu.Unlock()
	}
	raceEnable()
	return tok
}

//go:norace
func hookStart(tok int) {
	w := theWorld
	if w == nil || tok == 0 {
		return
	}
	raceDisable()
	w.mu.Lock()
	g := w.gs[tok-1]
	g.goid = curGoid()
	w.mu.Unlock()
	w.park(g, "start")
	raceEnable()
}

//go:norace
func hookExit(tok int) {
	w := theWorld
	if w == nil || tok == 0 {
		return
	}
	raceDisable()
	w.mu.Lock()
	g := w.gs[tok-1]
	g.state = gDone
	g.goid = 0
	w.mu.Unlock()
	raceEnable()
}

//go:norace
func (w *World) newPrio() int {
	// called with w.mu held, by the single running goroutine: deterministic
	return int(w.rng.Uint64() >> 33)
}

// NewWorld prepares a world for the given schedule plan.
func NewWorld(sp plan.Sched, probes *Probes) *World {
	w := &World{sp: sp, rng: plan.NewRand(plan.Mix(sp.Seed, 0x5c4ed)), probes: probes, states: map[uint64]struct{}{}}
	// Fixed capacity: append must never grow these from inside a hook
	// (runtime.growslice is race-instrumented even in norace functions).
	w.gs = make([]*G, 0, maxGoroutines)
	w.join = make(chan struct{}, 64)
	w.max = sp.MaxSteps
	if w.max == 0 {
		w.max = 1500000
	}
	if sp.Policy == "pct" {
		d := sp.Depth
		if d == 0 {
			d = 2
		}
		for i := 0; i < d; i++ {
			w.changeP = append(w.changeP, w.rng.Intn(400))
		}
	}
	return w
}

// Client describes a client goroutine to run in a phase.
type Client struct {
	Name string
	Run  func(cs *ClientState)
}

// EndEpoch is called by a client between lifecycle phases of its object:
// judged tells whether every library goroutine spawned during the epoch that
// ends must be gone at quiescence.
//
//go:norace
func (w *World) EndEpoch(cs *ClientState, judged bool) {
	raceDisable()
	w.mu.Lock()
	for len(cs.judged) <= cs.epoch {
		cs.judged = append(cs.judged, false)
	}
	cs.judged[cs.epoch] = cs.judged[cs.epoch] || judged
	cs.epoch++
	w.mu.Unlock()
	raceEnable()
}

// MarkJudged marks the current epoch judged without ending it.
//
//go:norace
func (w *World) MarkJudged(cs *ClientState) {
	raceDisable()
	w.mu.Lock()
	for len(cs.judged) <= cs.epoch {
		cs.judged = append(cs.judged, false)
	}
	cs.judged[cs.epoch] = true
	w.mu.Unlock()
	raceEnable()
}

// RunPhase runs the clients concurrently under the seeded schedule until the
// world is quiescent. It returns false when the run must stop (deadlock or
// step budget exhausted).
//
//go:norace
func (w *World) RunPhase(clients []Client) bool {
	var mine []*ClientState
	for _, c := range clients {
		cs := &ClientState{name: c.Name}
		w.mu.Lock()
		g := &G{id: len(w.gs), kind: "client:" + c.Name, client: len(w.clients), wake: make(chan struct{}), isClient: true}
		g.prio = w.newPrio()
		w.gs = append(w.gs, g)
		cs.g = g
		w.clients = append(w.clients, cs)
		w.mu.Unlock()
		mine = append(mine, cs)
		run := c.Run
		go w.clientMain(g, cs, run)
	}
	raceDisable()
	defer w.joinClients(mine)
	parked := make([]*G, 0, 64)
	for {
		synctest.Wait()
		parked = parked[:0]
		w.mu.Lock()
		for _, g := range w.gs {
			if g.state == gParked {
				parked = append(parked, g)
			}
		}
		w.mu.Unlock()
		if l := w.last; l != nil && l.state == gRunning {
			// the goroutine released last is blocked inside the library
			switch l.last {
			case "W.enqueue", "R.reader.enqueue":
				w.probes.Add("queue.full.at.enqueue", 1)
			case "W.close.enqueue", "R.reader.endenqueue":
				w.probes.Add("sentinel.behind.pending", 1)
			}
		}
		if len(parked) == 0 {
			alldone := true
			for _, cs := range mine {
				if !cs.done {
					alldone = false
				}
			}
			if alldone {
				w.judgeLeaks()
				return len(w.Leaks) == 0
			}
			w.Deadlock = w.describe()
			return false
		}
		if w.steps >= w.max {
			w.Livelock = true
			w.Deadlock = w.describe()
			return false
		}
		g := w.choose(parked)
		w.record(g, parked)
		w.steps++
		g.nsteps++
		g.state = gRunning
		w.last = g
		g.wake <- struct{}{}
	}
}

// clientMain is the body of a client goroutine.
func (w *World) clientMain(g *G, cs *ClientState, run func(*ClientState)) {
	w.clientStart(g)
	run(cs)
	w.clientDone(g, cs)
	// Visible join edge, last action of the goroutine: everything the client
	// did happens before the root's reading of the outcome.
	w.join <- struct{}{}
}

//go:norace
func (w *World) clientStart(g *G) {
	raceDisable()
	w.mu.Lock()
	g.goid = curGoid()
	w.mu.Unlock()
	w.park(g, "start")
	raceEnable()
}

//go:norace
func (w *World) clientDone(g *G, cs *ClientState) {
	raceDisable()
	w.mu.Lock()
	g.state = gDone
	g.goid = 0
	cs.done = true
	w.mu.Unlock()
	raceEnable()
}

//go:norace
func (w *World) doneCount(mine []*ClientState) int {
	n := 0
	for _, cs := range mine {
		if cs.done {
			n++
		}
	}
	return n
}

// joinClients re-enables race synchronisation for the root and receives the
// join token of every client that finished.
func (w *World) joinClients(mine []*ClientState) {
	raceEnable()
	for n := w.doneCount(mine); n > 0; n-- {
		<-w.join
	}
}

//go:norace
func (w *World) choose(parked []*G) *G {
	if len(parked) == 1 && w.sp.Policy != "explicit" {
		// still draw nothing: a forced move does not consume randomness
		return parked[0]
	}
	switch w.sp.Policy {
	case "explicit":
		if w.steps < len(w.sp.Choices) {
			want := w.sp.Choices[w.steps]
			for _, g := range parked {
				if g.id == want {
					return g
				}
			}
		}
		return parked[0]
	case "rr":
		for _, g := range parked {
			if g.id >= w.rrNext {
				w.rrNext = g.id + 1
				return g
			}
		}
		w.rrNext = parked[0].id + 1
		return parked[0]
	case "rtb":
		if w.last != nil && w.last.state == gParked {
			if w.rng.Intn(64) != 0 {
				return w.last
			}
		}
		return parked[w.rng.Intn(len(parked))]
	case "starve":
		var ok []*G
		for _, g := range parked {
			if !contains(g.kind, w.sp.Starve) {
				ok = append(ok, g)
			}
		}
		if len(ok) > 0 && w.rng.Intn(24) != 0 {
			return ok[w.rng.Intn(len(ok))]
		}
		return parked[w.rng.Intn(len(parked))]
	case "pct":
		for _, cp := range w.changeP {
			if cp == w.steps && w.last != nil {
				w.last.prio = -w.steps // demote below everything seen so far
			}
		}
		best := parked[0]
		for _, g := range parked[1:] {
			if g.prio > best.prio {
				best = g
			}
		}
		return best
	default: // random
		return parked[w.rng.Intn(len(parked))]
	}
}

func contains(s, sub string) bool {
	if sub == "" {
		return false
	}
	for i := 0; i+len(sub) <= len(s); i++ {
		if s[i:i+len(sub)] == sub {
			return true
		}
	}
	return false
}

func fnvAdd(h uint64, s string) uint64 {
	for i := 0; i < len(s); i++ {
		h ^= uint64(s[i])
		h *= 1099511628211
	}
	h ^= 0xff
	h *= 1099511628211
	return h
}

//go:norace
func (w *World) record(g *G, parked []*G) {
	w.trace = append(w.trace, int32(g.id))
	if w.thash == 0 {
		w.thash = 14695981039346656037
	}
	w.thash = fnvAdd(fnvAdd(w.thash, g.kind), g.site)
	// abstract pipeline state: multiset of (kind@site) over live goroutines,
	// order-independent sum of hashes
	var sh uint64
	w.mu.Lock()
	for _, x := range w.gs {
		switch x.state {
		case gParked:
			sh += fnvAdd(fnvAdd(14695981039346656037, x.kind), x.site)
		case gRunning, gSpawned:
			sh += fnvAdd(fnvAdd(1469598103934665603, x.kind), x.last)
		}
	}
	w.mu.Unlock()
	w.states[sh] = struct{}{}
}

// describe lists the goroutines that are not done, for deadlock reports.
//
//go:norace
func (w *World) describe() string {
	s := ""
	w.mu.Lock()
	for _, g := range w.gs {
		if g.state == gDone {
			continue
		}
		st := "blocked-after"
		site := g.last
		if g.state == gParked {
			st = "parked-at"
			site = g.site
		}
		if s != "" {
			s += "; "
		}
		s += g.kind + " " + st + " " + site
	}
	w.mu.Unlock()
	return s
}

// judgeLeaks runs at quiescence with every client of the phase done: library
// goroutines that are not done are blocked forever. They are a leak when the
// epoch they were spawned in ended with an event after which none may remain.
//
//go:norace
func (w *World) judgeLeaks() {
	w.mu.Lock()
	for _, g := range w.gs {
		if g.isClient || g.state == gDone || g.state == gSpawned && g.goid == 0 {
			continue
		}
		cs := w.clients[g.client]
		if g.epoch < len(cs.judged) && cs.judged[g.epoch] {
			w.Leaks = append(w.Leaks, g.kind+" blocked-after "+g.last)
		} else {
			w.Abandoned++
		}
	}
	w.mu.Unlock()
}

// BlockedKinds lists kinds of live library goroutines (for reports).
func (w *World) Steps() int        { return w.steps }
func (w *World) TraceHash() uint64 { return w.thash }
func (w *World) Trace() []int32    { return w.trace }
func (w *World) Spawned() int      { return w.spawned }
func (w *World) StateHashes() map[uint64]struct{} {
	return w.states
}
