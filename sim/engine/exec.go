package engine

import (
	"bufio"
	"bytes"
	"errors"
	"fmt"
	"io"
	"runtime"
	"strings"
	"sync/atomic"
	"testing"
	"testing/synctest"
	"time"

	lz4 "github.com/pierrec/lz4/v4"

	"verif/sim/plan"
	"verif/sim/ref"
)

// ErrInfo is the observable classification of an error value.
type ErrInfo struct {
	Nil          bool   `json:"nil"`
	Msg          string `json:"msg,omitempty"`
	Injected     bool   `json:"injected,omitempty"`
	EOF          bool   `json:"eof,omitempty"`    // errors.Is(err, io.EOF)
	IsEOF        bool   `json:"is_eof,omitempty"` // err == io.EOF
	UnexpEOF     bool   `json:"unexp,omitempty"`
	InvalidFrame bool   `json:"invalid_frame,omitempty"`
}

func classify(err error) ErrInfo {
	if err == nil {
		return ErrInfo{Nil: true}
	}
	return ErrInfo{
		Msg:          err.Error(),
		Injected:     errors.Is(err, ErrInjected),
		EOF:          errors.Is(err, io.EOF),
		IsEOF:        err == io.EOF,
		UnexpEOF:     errors.Is(err, io.ErrUnexpectedEOF),
		InvalidFrame: errors.Is(err, lz4.ErrInvalidFrame),
	}
}

// Class is a coarse error class used when comparing behaviours.
func (e ErrInfo) Class() string {
	switch {
	case e.Nil:
		return "nil"
	case e.Injected:
		return "injected"
	case e.EOF:
		return "eof"
	case e.UnexpEOF:
		return "unexpected-eof"
	}
	// strip variable parts
	m := e.Msg
	if i := strings.Index(m, ": got"); i >= 0 {
		m = m[:i]
	}
	return m
}

// WOpOut is the observable result of one Writer call.
type WOpOut struct {
	Op        string  `json:"op"`
	N         int64   `json:"n"`
	Err       ErrInfo `json:"err"`
	Sink      int     `json:"sink"`
	SinkLen   int     `json:"sink_len"` // bytes in the current sink when the call returned
	Asked     int     `json:"asked"`
	Panic     string  `json:"panic,omitempty"`
	SinkCalls int     `json:"sink_calls"`
	SrcFault  bool    `json:"src_fault,omitempty"` // the ReadFrom source failed during this call
}

// WOut is the outcome of a Writer client.
type WOut struct {
	Ops                []WOpOut
	Sinks              []*SimSink
	Accepted           [][]byte // per op: the bytes passed in that the call reported as accepted
	ApplyErr           ErrInfo
	Handler            int // handler invocations
	HandlerAfterReturn int
	Finished           bool
	hs                 *handlerState
}

// ROpOut is the observable result of one Reader call (or drain loop).
type ROpOut struct {
	Op          string  `json:"op"`
	N           int64   `json:"n"`
	Err         ErrInfo `json:"err"`
	Calls       int     `json:"calls,omitempty"`
	Consumed    int     `json:"consumed"` // source position after the call
	Src         int     `json:"src"`
	Size        int     `json:"size,omitempty"`
	Panic       string  `json:"panic,omitempty"`
	ZeroNil     int     `json:"zero_nil,omitempty"` // Read calls that returned (0, nil) with len(p) > 0
	Over        int     `json:"over,omitempty"`     // calls that returned n > len(p)
	SinkFaultAt int     `json:"sink_fault_at,omitempty"`
}

// ROut is the outcome of a Reader client.
type ROut struct {
	Ops       []ROpOut
	Srcs      []*SimSource
	Stored    [][]byte // per source
	Delivered [][]byte // per source epoch: bytes handed to the caller
	WTSinks   []*SimSink
	Handler   int
	Finished  bool
}

// COut is the outcome of a CompressingReader client.
type COut struct {
	Out      []byte
	Calls    int
	Lens     []int // returned n per call (bounded history)
	Asked    []int
	Final    ErrInfo
	ZeroNil  int
	Over     int
	Src      *SimSource
	Input    []byte
	Panic    string
	Capped   bool    // stopped by the harness's cap on calls, not by the reader
	Next     *COut   // the stream read after a Reset of the same object
	AfterEOF ErrInfo // result of one more Read after EOF
	ApplyErr ErrInfo
	Finished bool
}

type BOut struct {
	N    []int
	Err  []ErrInfo
	Hash []uint64
}

// Outcome is everything a run produced.
type Outcome struct {
	W           []*WOut
	R           []*ROut
	C           []*COut
	B           []*BOut
	Inputs      [][]byte
	Prep        *Prep
	TwinSinks   [][][]byte
	World       *World
	Probes      *Probes
	Panics      []string
	Races       int
	Steps       int
	TraceHash   uint64
	Deadlock    string
	Livelock    bool
	Leaks       []string
	PoolViol    []string
	PoolPeak    int64
	Spawned     int
	Stopped     bool // a phase did not reach quiescence
	BubblePanic string
	AllocBytes  uint64
}

// Executor runs plans.
type Executor struct {
	T *testing.T
}

func init() {
	lz4.VerifInstall(lz4.VerifHooks{
		Yield:   hookYield,
		Spawn:   hookSpawn,
		Start:   hookStart,
		Exit:    hookExit,
		PoolGet: hookPoolGet,
		PoolPut: hookPoolPut,
	})
}

func blockSizeOf(idx int) lz4.BlockSize {
	switch idx {
	case 4:
		return lz4.Block64Kb
	case 5:
		return lz4.Block256Kb
	case 6:
		return lz4.Block1Mb
	case 7:
		return lz4.Block4Mb
	}
	return lz4.BlockSize(idx) // invalid on purpose
}

func levelOf(l int) lz4.CompressionLevel {
	if l <= 0 {
		return lz4.Fast
	}
	if l > 9 {
		return lz4.CompressionLevel(l) // invalid on purpose
	}
	return lz4.CompressionLevel(1 << (8 + uint(l)))
}

// BlockBytes returns the block size in bytes a WOpts selects.
func BlockBytes(o plan.WOpts) int {
	if o.Legacy {
		return 8 << 20
	}
	switch o.BS {
	case 4:
		return 64 << 10
	case 5:
		return 256 << 10
	case 6:
		return 1 << 20
	}
	return 4 << 20
}

func (x *run) wopts(o plan.WOpts, inputLen int) []lz4.Option {
	if o.Default {
		return nil
	}
	var opts []lz4.Option
	if o.BS != 0 {
		opts = append(opts, lz4.BlockSizeOption(blockSizeOf(o.BS)))
	}
	opts = append(opts, lz4.BlockChecksumOption(o.BSum), lz4.ChecksumOption(o.CSum))
	switch {
	case o.Size == -1:
		opts = append(opts, lz4.SizeOption(uint64(inputLen)))
	case o.Size > 0:
		opts = append(opts, lz4.SizeOption(uint64(o.Size)))
	default:
		opts = append(opts, lz4.SizeOption(0))
	}
	opts = append(opts, lz4.CompressionLevelOption(levelOf(o.Level)))
	return opts
}

// run is the state of one plan execution (one bubble).
type run struct {
	p      *plan.Plan
	w      *World
	inputs [][]byte
	out    *Outcome
	prep   *Prep
}

// handlerState is the on-block-done callback installed by clients. It is
// called from library worker goroutines, so everything it touches is behind
// norace methods.
type handlerState struct {
	yields   int
	count    int
	after    int
	returned bool
}

//go:norace
func (h *handlerState) call(int) {
	h.count++
	if h.returned {
		h.after++
	}
	for i := 0; i < h.yields; i++ {
		hookYield("handler")
	}
}

//go:norace
func (h *handlerState) setReturned(v bool) { h.returned = v }

//go:norace
func (h *handlerState) counts() (int, int) { return h.count, h.after }

func recoverInto(dst *string) {
	if r := recover(); r != nil {
		buf := make([]byte, 2048)
		n := runtime.Stack(buf, false)
		*dst = fmt.Sprintf("%v\n%s", r, buf[:n])
	}
}

func (x *run) runWriter(idx int, cs *ClientState) {
	ws := &x.p.Writers[idx]
	out := x.out.W[idx]
	input := x.inputs[ws.In]
	pos := 0
	for i, sp := range ws.Sinks {
		out.Sinks = append(out.Sinks, NewSimSink(x.w, fmt.Sprintf("W%d.%d", idx, i), sp))
	}
	cur := 0
	zw := lz4.NewWriter(out.Sinks[0])
	hs := &handlerState{yields: ws.Opts.HYield}
	h := hs.call
	applyAll := func(o plan.WOpts) error {
		opts := x.wopts(o, len(input))
		if !o.Default {
			conc := o.Conc
			if conc <= 0 {
				conc = 0
			}
			opts = append(opts, lz4.ConcurrencyOption(conc), lz4.OnBlockDoneOption(h))
			if o.Legacy {
				opts = append(opts, lz4.LegacyOption(true))
			}
		}
		return zw.Apply(opts...)
	}
	out.ApplyErr = classify(applyAll(ws.Opts))
	curOpts := ws.Opts
	scratch := []byte(nil)
	for _, op := range ws.Ops {
		r := WOpOut{Op: op.Op, Sink: cur}
		var acc []byte
		func() {
			defer recoverInto(&r.Panic)
			hs.setReturned(false)
			switch op.Op {
			case "write":
				n := op.N
				histPos := pos
				if op.Hist {
					pos = 0
				}
				if pos+n > len(input) {
					n = len(input) - pos
				}
				r.Asked = n
				// The caller's buffer is scribbled after the call returns: a
				// library that keeps reading it afterwards produces wrong output.
				if cap(scratch) < n {
					scratch = make([]byte, n)
				}
				buf := scratch[:n]
				copy(buf, input[pos:pos+n])
				wn, err := zw.Write(buf)
				for i := range buf {
					buf[i] = 0xEE
				}
				r.N, r.Err = int64(wn), classify(err)
				if wn > 0 && wn <= n {
					acc = input[pos : pos+wn]
					pos += wn
				}
				if op.Hist {
					pos = histPos
				}
			case "readfrom":
				n := op.N
				if pos+n > len(input) {
					n = len(input) - pos
				}
				r.Asked = n
				fr := plan.Frag{Policy: "full"}
				if op.Frag != nil {
					fr = *op.Frag
				}
				src := NewSimSource(x.w, fmt.Sprintf("W%d.src", idx), input[pos:pos+n], plan.Source{Frag: fr, Faults: op.SrcFaults}, nil)
				var rsrc io.Reader = src
				if op.Bufio > 0 {
					rsrc = bufio.NewReaderSize(src, op.Bufio)
				}
				rn, err := zw.ReadFrom(rsrc)
				r.N, r.Err = rn, classify(err)
				r.SrcFault = src.FaultPos >= 0
				if rn > 0 && int(rn) <= n {
					acc = input[pos : pos+int(rn)]
					pos += int(rn)
				}
			case "flush":
				r.Err = classify(zw.Flush())
			case "close":
				r.Err = classify(zw.Close())
				x.w.EndEpoch(cs, true)
			case "reset":
				x.w.EndEpoch(cs, false)
				cur = op.Sink
				r.Sink = cur
				zw.Reset(out.Sinks[cur])
			case "renew":
				// a brand-new Writer with the options in effect (Reset equivalence)
				x.w.EndEpoch(cs, false)
				cur = op.Sink
				r.Sink = cur
				zw = lz4.NewWriter(out.Sinks[cur])
				r.Err = classify(applyAll(curOpts))
			case "apply":
				r.Err = classify(applyAll(*op.Opts))
				if r.Err.Nil {
					curOpts = *op.Opts
				}
			default:
				panic("unknown writer op " + op.Op)
			}
			hs.setReturned(true)
		}()
		r.SinkLen = len(out.Sinks[r.Sink].Buf)
		r.SinkCalls = out.Sinks[r.Sink].Calls
		out.Ops = append(out.Ops, r)
		out.Accepted = append(out.Accepted, acc)
		if r.Panic != "" {
			break
		}
	}
	hs.setReturned(true)
	out.hs = hs
	out.Finished = true
}

func (x *run) runReader(idx int, cs *ClientState) {
	rs := &x.p.Readers[idx]
	out := x.out.R[idx]
	for i := range rs.Srcs {
		data := x.prep.Stored[idx][i]
		out.Stored = append(out.Stored, data)
		out.Srcs = append(out.Srcs, NewSimSource(x.w, fmt.Sprintf("R%d.%d", idx, i), data, rs.Srcs[i], x.prep.Bounds[idx][i]))
	}
	cur := 0
	out.Delivered = append(out.Delivered, nil)
	wrap := func(i int) io.Reader {
		var src io.Reader = out.Srcs[i]
		if rs.Srcs[i].Seeker {
			src = SeekSource{out.Srcs[i]}
		}
		if n := rs.Srcs[i].Bufio; n > 0 {
			return bufio.NewReaderSize(src, n)
		}
		return src
	}
	zr := lz4.NewReader(wrap(0))
	hs := &handlerState{yields: rs.HYield}
	h := hs.call
	conc := rs.Conc
	if conc <= 0 {
		conc = 0
	}
	_ = zr.Apply(lz4.ConcurrencyOption(conc), lz4.OnBlockDoneOption(h))
	var buf []byte
	for _, op := range rs.Ops {
		r := ROpOut{Op: op.Op, Src: cur}
		func() {
			defer recoverInto(&r.Panic)
			switch op.Op {
			case "read":
				if cap(buf) < op.N {
					buf = make([]byte, op.N)
				}
				p := buf[:op.N]
				n, err := zr.Read(p)
				r.N, r.Err, r.Calls = int64(n), classify(err), 1
				if n > len(p) {
					r.Over++
					n = len(p)
				}
				if n == 0 && err == nil && len(p) > 0 {
					r.ZeroNil++
				}
				if n > 0 {
					out.Delivered[len(out.Delivered)-1] = append(out.Delivered[len(out.Delivered)-1], p[:n]...)
				}
				x.judgeReaderErr(cs, err, out.Srcs[cur])
			case "drain":
				sizes := op.Sizes
				if len(sizes) == 0 {
					sizes = []int{4096}
				}
				var err error
				for i := 0; ; i++ {
					if op.Max > 0 && i >= op.Max {
						break
					}
					sz := sizes[i%len(sizes)]
					if cap(buf) < sz {
						buf = make([]byte, sz)
					}
					p := buf[:sz]
					var n int
					n, err = zr.Read(p)
					r.Calls++
					if n > len(p) {
						r.Over++
						n = len(p)
					}
					if n == 0 && err == nil && len(p) > 0 {
						r.ZeroNil++
						if r.ZeroNil > 8 {
							err = errors.New("harness: Read keeps returning (0, nil)")
							break
						}
					}
					r.N += int64(n)
					if n > 0 {
						out.Delivered[len(out.Delivered)-1] = append(out.Delivered[len(out.Delivered)-1], p[:n]...)
					}
					if err != nil {
						break
					}
				}
				r.Err = classify(err)
				x.judgeReaderErr(cs, err, out.Srcs[cur])
			case "writeto":
				sp := plan.SinkPlan{}
				if op.Sink != nil {
					sp = *op.Sink
				}
				sink := NewSimSink(x.w, fmt.Sprintf("R%d.wt%d", idx, len(out.WTSinks)), sp)
				out.WTSinks = append(out.WTSinks, sink)
				var dst io.Writer = sink
				if sp.Grow {
					dst = GrowSink{sink}
				}
				n, err := zr.WriteTo(dst)
				r.N, r.Err, r.Calls = n, classify(err), 1
				r.SinkFaultAt = sink.FaultAt
				out.Delivered[len(out.Delivered)-1] = append(out.Delivered[len(out.Delivered)-1], sink.Buf...)
				if err == nil {
					// WriteTo reached the end of the stream
					x.w.MarkJudged(cs)
				} else if sink.FaultAt < 0 {
					x.judgeReaderErr(cs, err, out.Srcs[cur])
				}
			case "size":
				r.Size = zr.Size()
			case "reset":
				x.w.EndEpoch(cs, false)
				cur = op.Src
				r.Src = cur
				// a fresh source object over the same stored bytes
				out.Srcs[cur] = NewSimSource(x.w, fmt.Sprintf("R%d.%d", idx, cur), out.Stored[cur], rs.Srcs[cur], x.prep.Bounds[idx][cur])
				zr.Reset(wrap(cur))
				out.Delivered = append(out.Delivered, nil)
			case "apply":
				r.Err = classify(zr.Apply(lz4.ConcurrencyOption(op.Conc)))
			default:
				panic("unknown reader op " + op.Op)
			}
		}()
		r.Consumed = out.Srcs[r.Src].Pos
		out.Ops = append(out.Ops, r)
		if r.Panic != "" {
			break
		}
	}
	out.Handler, _ = hs.counts()
	out.Finished = true
}

// judgeReaderErr marks the epoch judged when the Reader delivered EOF or
// reported a source or decoding error (C08's leak clause).
func (x *run) judgeReaderErr(cs *ClientState, err error, src *SimSource) {
	if err == nil {
		return
	}
	// misuse of the API is neither the end of the stream nor a source or
	// decoding error: the pipeline may legitimately stay parked
	if errors.Is(err, lz4.ErrInternalUnhandledState) || errors.Is(err, lz4.ErrOptionClosedOrError) {
		return
	}
	x.w.MarkJudged(cs)
}

func (x *run) runCR(idx int, cs *ClientState) {
	c := &x.p.CRs[idx]
	out := x.out.C[idx]
	defer recoverInto(&out.Panic)
	var zr *lz4.CompressingReader
	for n := 0; c != nil; n++ {
		input := x.inputs[c.In]
		out.Input = input
		src := NewSimSource(x.w, fmt.Sprintf("C%d.src%d", idx, n), input, plan.Source{Frag: c.Frag, Faults: c.Faults, EOFWithData: c.EOFWithData}, nil)
		out.Src = src
		if zr == nil {
			zr = lz4.NewCompressingReader(src)
		} else {
			zr.Reset(src)
		}
		x.crStream(zr, c, input, out)
		if c.Next != nil {
			out.Next = &COut{}
			out = out.Next
		}
		c = c.Next
	}
}

// crStream applies the options and reads one stream to its end.
func (x *run) crStream(zr *lz4.CompressingReader, c *plan.CScript, input []byte, out *COut) {
	defer recoverInto(&out.Panic)
	hs := &handlerState{}
	opts := x.wopts(c.Opts, len(input))
	if !c.Opts.Default {
		opts = append(opts, lz4.OnBlockDoneOption(hs.call))
	}
	out.ApplyErr = classify(zr.Apply(opts...))
	sizes := c.Sizes
	if len(sizes) == 0 {
		sizes = []int{4096}
	}
	var exact []int
	if c.Exact {
		exact = x.exactSizes(c, input)
	}
	maxCalls := c.MaxCalls
	if maxCalls == 0 {
		maxCalls = 64 + 40*(len(input)+1)
		if maxCalls > 4000000 {
			maxCalls = 4000000
		}
	}
	var buf []byte
	k := 0
	var err error
	for i := 0; i < maxCalls; i++ {
		sz := sizes[k%len(sizes)]
		if i < len(exact) {
			sz = exact[i]
		}
		k++
		if cap(buf) < sz {
			buf = make([]byte, sz)
		}
		p := buf[:sz]
		for j := range p {
			p[j] = 0xCD
		}
		var n int
		n, err = zr.Read(p)
		out.Calls++
		if len(out.Lens) < 4096 {
			out.Lens = append(out.Lens, n)
			out.Asked = append(out.Asked, sz)
		}
		if n > len(p) || n < 0 {
			out.Over++
			if n > len(p) {
				n = len(p)
			} else {
				n = 0
			}
		}
		if n == 0 && err == nil && len(p) > 0 {
			out.ZeroNil++
		}
		if len(p) == 0 {
			x.out.Probes.Add("cr.zero.len.read", 1)
		}
		out.Out = append(out.Out, p[:n]...)
		if c.Adaptive && n == len(p) && n > 0 {
			// a full buffer: overflow may be pending; jump in the size cycle
			k += int(hashVisible(p[:1])) % 3
		}
		if err != nil {
			break
		}
	}
	out.Final = classify(err)
	out.Capped = err == nil // the harness's own cap on the number of calls was reached
	if err == io.EOF {
		_, e2 := zr.Read(make([]byte, 16))
		out.AfterEOF = classify(e2)
	}
	out.Finished = true
}

// exactSizes derives Read buffer sizes from the structure of the frame the
// compressing reader will emit for this input and these options: buffers that
// end exactly on, one byte before or one byte after the boundaries between
// header, blocks and trailer (the states of the hand-written overflow buffer).
func (x *run) exactSizes(c *plan.CScript, input []byte) []int {
	zr := lz4.NewCompressingReader(io.NopCloser(bytes.NewReader(input)))
	opts := x.wopts(c.Opts, len(input))
	if c.Opts.Default {
		opts = nil
	}
	if zr.Apply(opts...) != nil {
		return nil
	}
	frame, err := io.ReadAll(zr)
	if err != nil {
		return nil
	}
	f := ref.Parse(frame, ref.ParseOpt{})
	var bounds []int
	for _, fd := range f.Fields {
		switch fd.Kind {
		case "hc", "bsum", "endmark", "csum":
			bounds = append(bounds, fd.Off+fd.Len)
		case "bdata":
			if !f.BlockSum {
				bounds = append(bounds, fd.Off+fd.Len)
			}
		}
	}
	r := plan.NewRand(plan.Mix(c.ExactSeed, 0xe4ac7))
	var out []int
	pos := 0
	for bi := 0; bi < len(bounds) && len(out) < 4096; {
		b := bounds[bi]
		if b <= pos {
			bi++
			continue
		}
		sz := b - pos
		switch r.Pick(50, 15, 15, 20) {
		case 1:
			if sz > 1 {
				sz--
			}
		case 2:
			sz++
		case 3:
			if bi+1 < len(bounds) {
				sz = bounds[bi+1] - pos
			}
		}
		out = append(out, sz)
		pos += sz
	}
	return out
}

func (x *run) runBlocks(idx int, cs *ClientState) {
	bs := &x.p.Blocks[idx]
	out := x.out.B[idx]
	hcObjs := []*lz4.CompressorHC{{}, {}, {}}
	fastObjs := []*lz4.Compressor{{}, {}, {}}
	for _, c := range bs.Calls {
		src := x.inputs[c.In]
		lo, hi := c.Off, c.Off+c.Len
		if lo > len(src) {
			lo = len(src)
		}
		if hi > len(src) {
			hi = len(src)
		}
		src = src[lo:hi]
		dl := c.Dst
		if dl == 0 {
			dl = lz4.CompressBlockBound(len(src))
		}
		dst := make([]byte, dl)
		var n int
		var err error
		switch {
		case c.HC && c.Obj > 0:
			o := hcObjs[c.Obj%len(hcObjs)]
			o.Level = lz4.CompressionLevel(c.Depth)
			n, err = o.CompressBlock(src, dst)
		case c.HC:
			n, err = lz4.CompressBlockHC(src, dst, lz4.CompressionLevel(c.Depth), nil, nil)
		case c.Obj > 0:
			n, err = fastObjs[c.Obj%len(fastObjs)].CompressBlock(src, dst)
		default:
			n, err = lz4.CompressBlock(src, dst, nil)
		}
		if n < 0 || n > len(dst) {
			n = 0
		}
		out.N = append(out.N, n)
		out.Err = append(out.Err, classify(err))
		out.Hash = append(out.Hash, hashVisible(dst[:n]))
		hookYield("blocks.between")
	}
}

// Prep holds what is computed before the scheduled part of a run.
type Prep struct {
	Stored [][][]byte // per reader, per source
	Bounds [][][]int
	Fields [][][]ref.Field
	Base   [][][]byte // the unmutated, uncut stored bytes
}

// Watchdog state: the worker's wall-clock watchdog (for spins that touch no
// hook) measures the time since the last execution started.
var watchdogRun atomic.Int64
var watchdogBeat atomic.Int64

// Execute runs one concrete plan (no enumeration) in a fresh bubble.
func (e *Executor) Execute(p *plan.Plan) *Outcome {
	if watchdogBeat.Load() != 0 {
		watchdogBeat.Store(time.Now().UnixNano())
	}
	out := &Outcome{Probes: &Probes{}}
	races0 := raceErrors()
	if p.Procs > 0 {
		old := runtime.GOMAXPROCS(p.Procs)
		defer runtime.GOMAXPROCS(old)
	}
	var ms0, ms1 runtime.MemStats
	measure := p.Kind == "hostile"
	if measure {
		runtime.ReadMemStats(&ms0)
	}
	func() {
		defer func() {
			if r := recover(); r != nil {
				out.BubblePanic = fmt.Sprint(r)
			}
		}()
		// One subtest per simulated run: synctest.Test calls FailNow on the T
		// it is given when the bubble's test failed (for instance because the
		// race detector reported something), which must not end the worker.
		e.T.Run("run", func(t *testing.T) {
			defer func() {
				if r := recover(); r != nil {
					out.BubblePanic = fmt.Sprint(r)
				}
			}()
			synctest.Test(t, func(t *testing.T) {
				e.bubble(p, out)
			})
		})
	}()
	if measure {
		runtime.ReadMemStats(&ms1)
		out.AllocBytes = ms1.TotalAlloc - ms0.TotalAlloc
	}
	theWorld = nil
	out.Races = raceErrors() - races0
	return out
}

func (e *Executor) bubble(p *plan.Plan, out *Outcome) {
	w := NewWorld(p.Sched, out.Probes)
	w.pool = NewSimPool(p.Pool, plan.Mix(p.Sched.Seed, 77))
	x := &run{p: p, w: w, out: out}
	out.World = w
	for _, in := range p.Inputs {
		x.inputs = append(x.inputs, in.Bytes())
	}
	out.Inputs = x.inputs
	for range p.Writers {
		out.W = append(out.W, &WOut{})
	}
	for range p.Readers {
		out.R = append(out.R, &ROut{})
	}
	for range p.CRs {
		out.C = append(out.C, &COut{})
	}
	for range p.Blocks {
		out.B = append(out.B, &BOut{})
	}
	x.prep = &Prep{Stored: make([][][]byte, len(p.Readers)), Bounds: make([][][]int, len(p.Readers)),
		Fields: make([][][]ref.Field, len(p.Readers)), Base: make([][][]byte, len(p.Readers))}
	out.Prep = x.prep
	out.Prep = x.prep
	theWorld = w
	ok := true
	for _, phase := range p.Phases {
		// stored bytes that come from a sink of an earlier phase are resolved now
		for _, name := range phase {
			if name[0] == 'R' {
				ri := atoi(name[1:])
				if x.prep.Stored[ri] == nil {
					x.prepareReader(ri)
				}
			}
		}
		var cl []Client
		for _, name := range phase {
			i := atoi(name[1:])
			switch name[0] {
			case 'W':
				cl = append(cl, Client{name, func(cs *ClientState) { x.runWriter(i, cs) }})
			case 'R':
				cl = append(cl, Client{name, func(cs *ClientState) { x.runReader(i, cs) }})
			case 'C':
				cl = append(cl, Client{name, func(cs *ClientState) { x.runCR(i, cs) }})
			case 'B':
				cl = append(cl, Client{name, func(cs *ClientState) { x.runBlocks(i, cs) }})
			}
		}
		if !w.RunPhase(cl) {
			ok = false
			break
		}
	}
	// Make every goroutine's activity happen-before the root's reading of the
	// outcome (visible join; the scheduler's own waits are sync-invisible).
	synctest.Wait()
	out.Stopped = !ok
	out.Steps = w.steps
	out.TraceHash = w.thash
	out.Deadlock = w.Deadlock
	out.Livelock = w.Livelock
	out.Leaks = w.Leaks
	out.Spawned = w.spawned
	w.pool.Finish()
	out.PoolViol = w.pool.Violations()
	out.PoolPeak = w.pool.Peak
	out.Probes.Add("pool.reissue", int64(w.pool.Reissued))
	out.Probes.Add("lib.goroutines", int64(w.spawned))
	out.Probes.Add("reader.abandoned", int64(w.Abandoned))
	for _, wo := range out.W {
		if wo.Ops != nil {
			for _, o := range wo.Ops {
				if o.Panic != "" {
					out.Panics = append(out.Panics, o.Panic)
				}
			}
		}
		if wo.hs != nil {
			wo.Handler, wo.HandlerAfterReturn = wo.hs.counts()
		}
		out.Probes.Add("handler.after.return", int64(wo.HandlerAfterReturn))
	}
	for _, ro := range out.R {
		for _, o := range ro.Ops {
			if o.Panic != "" {
				out.Panics = append(out.Panics, o.Panic)
			}
		}
	}

}

func atoi(s string) int {
	n := 0
	for _, c := range s {
		n = n*10 + int(c-'0')
	}
	return n
}
