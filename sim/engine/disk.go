package engine

import (
	"errors"
	"fmt"
	"io"

	"verif/sim/plan"
)

// ErrInjected is the error every injected I/O fault returns (wrapped).
var ErrInjected = errors.New("injected I/O fault")

// hashVisible reads every byte of p with race instrumentation on: a library
// goroutine that writes p concurrently (without ordering) is a reported race,
// and a changed hash between entry and exit of a sink call is a violation.
func hashVisible(p []byte) uint64 {
	h := uint64(1469598103934665603)
	i := 0
	for ; i+8 <= len(p); i += 8 {
		x := uint64(p[i]) | uint64(p[i+1])<<8 | uint64(p[i+2])<<16 | uint64(p[i+3])<<24 |
			uint64(p[i+4])<<32 | uint64(p[i+5])<<40 | uint64(p[i+6])<<48 | uint64(p[i+7])<<56
		h = (h ^ x) * 0x9E3779B97F4A7C15
		h ^= h >> 29
	}
	for ; i < len(p); i++ {
		h = (h ^ uint64(p[i])) * 1099511628211
	}
	return h
}

// copyVisible writes dst with race instrumentation on (the library's buffer),
// reading src (immutable stored bytes).
func copyVisible(dst, src []byte) int { return copy(dst, src) }

// SimSink is the simulated io.Writer.
type SimSink struct {
	Name  string
	w     *World
	p     plan.SinkPlan
	Buf   []byte
	Calls int
	dead  bool
	// FaultAt is the number of bytes accepted when the first fault fired
	// (including the m bytes of a short write), -1 if none fired.
	FaultAt    int
	FaultCall  int
	Fired      *Probes
	Mutated    int // calls during which the caller's buffer changed
	AfterFault int // bytes appended after the first fault
	MaxGrow    int // largest Grow request (GrowSink)
}

func NewSimSink(w *World, name string, p plan.SinkPlan) *SimSink {
	return &SimSink{Name: name, w: w, p: p, FaultAt: -1, Fired: w.probes}
}

//go:norace
func (s *SimSink) Write(p []byte) (int, error) {
	s.Calls++
	call := s.Calls
	h1 := hashVisible(p)
	// Copy on entry: the sink never retains p.
	snap := make([]byte, len(p))
	copy(snap, p)
	n := len(p)
	var err error
	stall := s.p.Yields
	if s.dead {
		n, err = 0, fmt.Errorf("%w (sink %s call %d, dead)", ErrInjected, s.Name, call)
	} else {
		for _, f := range s.p.Faults {
			if f.Call != call {
				continue
			}
			switch f.Kind {
			case "fail":
				n, err = 0, fmt.Errorf("%w (sink %s call %d)", ErrInjected, s.Name, call)
				s.fire("sink.fail")
			case "short":
				m := f.M
				if m >= len(p) {
					m = len(p) - 1
				}
				if m < 0 {
					m = 0
				}
				n, err = m, fmt.Errorf("%w (sink %s call %d short %d/%d)", ErrInjected, s.Name, call, m, len(p))
				s.fire("sink.short")
			case "stall":
				stall += f.Stall
				s.fire("sink.stall")
			}
			if err != nil && f.Forever {
				s.dead = true
				s.fire("sink.forever")
			}
		}
	}
	for i := 0; i < stall; i++ {
		hookYield("sink.call")
	}
	if hashVisible(p) != h1 {
		s.Mutated++
	}
	if s.FaultAt >= 0 {
		s.AfterFault += n
	}
	s.Buf = append(s.Buf, snap[:n]...)
	if err != nil && s.FaultAt < 0 {
		s.FaultAt = len(s.Buf)
		s.FaultCall = call
	}
	return n, err
}

//go:norace
func (s *SimSink) fire(k string) {
	s.Fired.Add(k, 1)
}

// SimSource is the simulated io.ReadCloser.
type SimSource struct {
	Name        string
	w           *World
	Data        []byte
	Pos         int
	Calls       int
	frag        plan.Frag
	rng         *plan.Rand
	bounds      []int
	bi          int
	faults      []plan.RFault
	eofWithData bool
	yields      int
	failed      error
	Closed      int
	Fired       *Probes
	zeros       int
	// ReadsAfterEOF counts calls made after io.EOF was returned once.
	eofSeen       bool
	ReadsAfterEOF int
	FaultPos      int // Pos when the first error fault fired, -1 none
	Seeks         int
	SeekPastEnd   int
	pastEnd       bool
}

func NewSimSource(w *World, name string, data []byte, src plan.Source, bounds []int) *SimSource {
	return &SimSource{Name: name, w: w, Data: data, frag: src.Frag, rng: plan.NewRand(plan.Mix(src.Frag.Seed, 0xf4a6)),
		bounds: bounds, faults: src.Faults, eofWithData: src.EOFWithData, yields: src.Yields, Fired: w.probes, FaultPos: -1}
}

//go:norace
func (s *SimSource) Close() error {
	s.Closed++
	return nil
}

//go:norace
func (s *SimSource) Read(p []byte) (int, error) {
	s.Calls++
	call := s.Calls
	if s.eofSeen {
		s.ReadsAfterEOF++
	}
	if len(p) == 0 {
		return 0, nil
	}
	if s.failed != nil {
		return 0, s.failed
	}
	stall := s.yields
	var fault string
	for _, f := range s.faults {
		if f.Call == call {
			switch f.Kind {
			case "stall":
				stall += f.Stall
				s.Fired.Add("src.stall", 1)
			default:
				fault = f.Kind
			}
		}
	}
	for i := 0; i < stall; i++ {
		hookYield("src.call")
	}
	switch fault {
	case "err0", "err0t":
		e := fmt.Errorf("%w (source %s call %d)", ErrInjected, s.Name, call)
		if fault == "err0" {
			s.failed = e // a broken source stays broken; "err0t" is transient
		}
		s.Fired.Add("src.err0", 1)
		if s.FaultPos < 0 {
			s.FaultPos = s.Pos
		}
		return 0, e
	case "zero":
		if s.zeros < 2 {
			s.zeros++
			s.Fired.Add("src.zero", 1)
			return 0, nil
		}
	}
	s.zeros = 0
	rem := len(s.Data) - s.Pos
	if rem == 0 && fault != "errn" && fault != "errnt" {
		s.eofSeen = true
		return 0, io.EOF
	}
	n := len(p)
	switch s.frag.Policy {
	case "one":
		n = 1
	case "small":
		n = 1 + s.rng.Intn(7)
	case "rand":
		n = 1 + s.rng.Intn(len(p))
	case "bound":
		// up to the next structural boundary
		for s.bi < len(s.bounds) && s.bounds[s.bi] <= s.Pos {
			s.bi++
		}
		if s.bi < len(s.bounds) && s.bounds[s.bi]-s.Pos < n {
			n = s.bounds[s.bi] - s.Pos
		}
	}
	if n > len(p) {
		n = len(p)
	}
	if n > rem {
		n = rem
	}
	copyVisible(p[:n], s.Data[s.Pos:s.Pos+n])
	s.Pos += n
	if fault == "errn" || fault == "errnt" {
		e := fmt.Errorf("%w (source %s call %d with %d bytes)", ErrInjected, s.Name, call, n)
		if fault == "errn" {
			s.failed = e
		}
		s.Fired.Add("src.errn", 1)
		if s.FaultPos < 0 {
			s.FaultPos = s.Pos
		}
		return n, e
	}
	if s.Pos == len(s.Data) && s.eofWithData {
		s.eofSeen = true
		s.Fired.Add("src.eofdata", 1)
		return n, io.EOF
	}
	return n, nil
}

// SeekSource is a SimSource that also implements io.Seeker with the usual
// semantics (seeking past the end is allowed; reads there return io.EOF).
type SeekSource struct{ *SimSource }

//go:norace
func (s SeekSource) Seek(offset int64, whence int) (int64, error) {
	var base int64
	switch whence {
	case io.SeekStart:
	case io.SeekCurrent:
		base = int64(s.Pos)
	case io.SeekEnd:
		base = int64(len(s.Data))
	default:
		return 0, errors.New("sim: invalid whence")
	}
	n := base + offset
	if n < 0 {
		return 0, errors.New("sim: negative position")
	}
	s.Seeks++
	if n > int64(len(s.Data)) {
		s.SeekPastEnd++
		s.SimSource.Pos = len(s.Data)
		s.SimSource.pastEnd = true
		return n, nil
	}
	s.SimSource.Pos = int(n)
	return n, nil
}

// GrowSink is a SimSink that also has a Grow method, like *bytes.Buffer.
type GrowSink struct{ *SimSink }

//go:norace
func (g GrowSink) Grow(n int) {
	if n > g.SimSink.MaxGrow {
		g.SimSink.MaxGrow = n
	}
}
