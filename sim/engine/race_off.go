//go:build !race

package engine

import "unsafe"

const RaceBuild = false

func raceDisable()                           {}
func raceEnable()                            {}
func raceErrors() int                        { return 0 }
func raceAcquire(p unsafe.Pointer)           {}
func raceReleaseMerge(p unsafe.Pointer)      {}
func raceWriteRange(p unsafe.Pointer, n int) {}
func raceReadRange(p unsafe.Pointer, n int)  {}
