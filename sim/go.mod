module verif/sim

go 1.26.8

require github.com/pierrec/lz4/v4 v4.0.0

replace github.com/pierrec/lz4/v4 => /repo
