// Command driver builds the simulation worker from /repo's current working
// tree, fans the runs of one check out over worker processes, minimises and
// records violations, and writes the evidence file.
//
//	driver check <PROP> <quick|thorough>
//	driver replay <file>
//	driver selftest [PROP...]
package main

import (
	"bufio"
	"bytes"
	"encoding/binary"
	"encoding/json"
	"fmt"
	"os"
	"os/exec"
	"path/filepath"
	"sort"
	"strconv"
	"strings"
	"sync"
	"time"

	"verif/sim/plan"
)

// verifDir is where this copy of the framework lives (the check script passes
// it as VERIF_HOME, so that a snapshot of /verif runs itself).
var (
	verifDir = "/verif"
	simDir   = "/verif/sim"
)

// Overridable for sensitivity experiments on scratch copies of the repository:
// VERIF_REPO selects the tree to build against (default /repo) and
// VERIF_SCRATCH a directory that receives build output, evidence and replays
// instead of /verif (so that such experiments never touch the registered
// evidence). The registered commands never set them.
var (
	repoDir  = "/repo"
	outRoot  = verifDir
	buildDir = "/verif/.build"
	modFile  = ""
)

func setupPaths() error {
	if v := os.Getenv("VERIF_HOME"); v != "" {
		verifDir = v
		simDir = filepath.Join(v, "sim")
		outRoot = v
		buildDir = filepath.Join(v, ".build")
	}
	if v := os.Getenv("VERIF_SCRATCH"); v != "" {
		outRoot = v
		buildDir = filepath.Join(v, ".build")
	}
	if err := os.MkdirAll(filepath.Join(buildDir, "out"), 0o755); err != nil {
		return err
	}
	if v := os.Getenv("VERIF_REPO"); v != "" && v != "/repo" {
		repoDir = v
		modFile = filepath.Join(buildDir, "alt.mod")
		mod := "module verif/sim\n\ngo 1.26.8\n\nrequire github.com/pierrec/lz4/v4 v4.0.0\n\nreplace github.com/pierrec/lz4/v4 => " + v + "\n"
		if err := os.WriteFile(modFile, []byte(mod), 0o644); err != nil {
			return err
		}
		os.WriteFile(filepath.Join(buildDir, "alt.sum"), nil, 0o644)
	}
	return nil
}

type tierCfg struct {
	Runs     int // number of run indices
	Race     int // of the 16 workers, how many use the race build
	BudgetMS int // wall-clock budget per worker (safety net; the run count decides)
}

type propCfg struct {
	Level      string
	Quick      tierCfg
	Thorough   tierCfg
	Rule       string
	Assume     []string
	RaceNeeded bool
}

var props = map[string]*propCfg{}

func init() {
	common := []string{
		"sampling: a clean batch is evidence, not proof",
		"the reference models in sim/ref (XXH32, block decoder, frame parser/encoder) are written from the format documents and are trusted",
		"yield granularity is the hooked synchronisation points; races between two plain accesses inside one step are left to the race detector's happens-before analysis",
		"real code: all of lz4, internal/lz4stream, internal/lz4block (amd64 asm decoder), internal/xxh32, real goroutines/channels/mutex/runtime; stubs: io.Reader/io.Writer endpoints (SimDisk), block-buffer pools (except pass-through runs), the choice of which goroutine proceeds at hooked points, OnBlockDone handlers, GOMAXPROCS",
	}
	add := func(id, level string, q, t tierCfg, rule string) {
		props[id] = &propCfg{Level: level, Quick: q, Thorough: t, Rule: rule, Assume: common}
	}
	add("C02", "exploration", tierCfg{12000, 0, 180000}, tierCfg{300000, 2, 2400000},
		"seeded plans: option matrix x input class/length x Write/Flush partition or ReadFrom x Reader concurrency x Read sizes or WriteTo x source fragmentation x schedule x pool mode; distinct = distinct plan hash; non-trivial = spawned a library goroutine, or >=2 writer calls / non-empty stored stream")
	add("C09", "exploration", tierCfg{12000, 0, 180000}, tierCfg{300000, 2, 2400000},
		"as C02 plus crafted inputs (stored block or content hashing to 0, incompressible blocks, legacy) and CompressingReader output; every emitted frame goes through the strict reference parser; distinct = distinct plan hash; non-trivial as C02")
	add("C08", "exploration", tierCfg{9000, 5, 180000}, tierCfg{200000, 6, 2400000},
		"seeded plans: 1-2 clients (Writer scripts with Write/Flush/Close/Reset/ReadFrom, Reader scripts with Read/WriteTo/early error) with concurrency >= 2, on-block-done handlers, all scheduler policies and pool modes, sink/source faults in a minority; part of the workers run the race-detector build; distinct = distinct plan hash; non-trivial = spawned >= 1 library goroutine")
	add("C14", "exploration", tierCfg{3600, 2, 180000}, tierCfg{60000, 4, 2400000},
		"seeded plans: a sequential single-Write reference frame vs variants (concurrency, schedule, Write partition, ReadFrom fragmentation, dirty pool re-issue, concurrent foreign client, handler stalls) and repeated package-level block calls; distinct = distinct plan hash; non-trivial = spawned >= 1 library goroutine or >= 2 writer calls")
	add("C15", "fault_enumeration", tierCfg{800, 0, 180000}, tierCfg{10000, 2, 2400000},
		"per generated base plan the failing call index k is enumerated over every sink (source) call of the fault-free run (all k when <= 64 calls, else first/last 16, around every Flush, 32 sampled) x fail/short x once/forever (source: (0,err)/(n,err)); plus fragmentation-invariance groups; distinct = distinct concrete plan hash (fault point inlined); non-trivial = a fault fired")
	add("C06", "fault_enumeration", tierCfg{500, 0, 180000}, tierCfg{8000, 2, 2400000},
		"per generated frame every prefix length 1..len-1 (frames <= 2 KiB) or every field boundary +-3 plus 64 sampled offsets, each read with a seeded choice of Reader concurrency, Read/WriteTo, EOF style and fragmentation; distinct = distinct concrete plan hash (cut inlined); non-trivial = the cut fired")
	add("C05", "exploration", tierCfg{20000, 0, 180000}, tierCfg{1000000, 2, 2400000},
		"seeded corruptions (field-targeted bit flips/byte substitutions, multi-edit, block delete/duplicate/swap, splices) of valid frames from the library Writer and the reference encoder, read with concurrency 1/2/4 via Read and WriteTo; distinct = distinct plan hash; non-trivial = a corruption was applied")
	add("C07", "exploration", tierCfg{12000, 0, 180000}, tierCfg{500000, 2, 2400000},
		"seeded hostile streams (random bytes, heavily mutated frames, grammar-built hostile field values, magic words around every reserved value, long repetitions) read with concurrency 1/2/4 via Read and WriteTo, plus the 256 words 0x184D2Axx and the legacy-magic recursion child; distinct = distinct plan hash; non-trivial = non-empty stored stream")
	add("C16", "exploration", tierCfg{6000, 0, 180000}, tierCfg{500000, 2, 2400000},
		"seeded dependent-block frames from the reference encoder (block lengths from a few bytes to the maximum, cross-block matches, offsets of exactly 65535, raw blocks, checksums) read with every Read-size sequence, WriteTo, fragmentation and ConcurrencyOption 1/2/4; distinct = distinct plan hash; non-trivial = frame has >= 2 blocks")
	add("C17", "exploration", tierCfg{30000, 2, 180000}, tierCfg{600000, 3, 2400000},
		"call sequences over the Writer/Reader alphabets: exhaustive to length 3 (quick) / 4 (thorough) with one representative argument per class, seeded random to length 12, sequential and concurrent objects, each checked against the reference lifecycle model and, for Reset, differentially against a fresh object; distinct = distinct plan hash; non-trivial = >= 2 calls")
	add("C18", "exploration", tierCfg{10000, 0, 180000}, tierCfg{800000, 2, 2400000},
		"seeded CompressingReader runs: input class/length x options x source fragmentation/EOF style/k-th call failure x Read buffer-size sequences (0, 1, 2..8, small, about one block, larger than the frame; adaptive switching when overflow is pending); distinct = distinct plan hash; non-trivial = >= 2 Read calls")
}

func env() []string {
	e := os.Environ()
	e = append(e, "GOFLAGS=-mod=mod", "GOPROXY=off", "GOSUMDB=off", "GOTOOLCHAIN=local", "CGO_ENABLED=1")
	return e
}

func goBin() string {
	if p, err := exec.LookPath("go1.26.8"); err == nil {
		return p
	}
	return "/opt/veriftools/go1.26.8/bin/go"
}

func build(race bool) (string, error) {
	out := filepath.Join(buildDir, "sim.test")
	args := []string{"test", "-c", "-tags", "verif", "-o", out}
	if race {
		out = filepath.Join(buildDir, "sim.race.test")
		args = []string{"test", "-c", "-race", "-tags", "verif", "-o", out}
	}
	if modFile != "" {
		args = append(args, "-modfile="+modFile)
	}
	args = append(args, "./engine/")
	cmd := exec.Command(goBin(), args...)
	cmd.Dir = simDir
	cmd.Env = env()
	b, err := cmd.CombinedOutput()
	if err != nil {
		return "", fmt.Errorf("build failed: %v\n%s", err, b)
	}
	return out, nil
}

type violation struct {
	Class  string `json:"class"`
	Key    string `json:"key"`
	Detail string `json:"detail"`
}

func (v violation) sig() string {
	if v.Key == "" {
		return v.Class
	}
	return v.Class + " " + v.Key
}

type result struct {
	Index      int             `json:"index"`
	Violations []violation     `json:"violations"`
	Plan       json.RawMessage `json:"plan"`
	Steps      int             `json:"steps"`
	Execs      int             `json:"execs"`
	TraceHash  uint64          `json:"trace_hash"`
	race       bool
}

type aggSummary struct {
	Runs    int               `json:"runs"`
	Execs   int               `json:"execs"`
	Steps   int64             `json:"steps"`
	Probes  map[string]int64  `json:"probes"`
	Samples []json.RawMessage `json:"samples"`
	Kinds   map[string]int    `json:"kinds"`
}

type workerOut struct {
	results []result
	agg     *aggSummary
	nondet  []string
	crashed *int // run index during which the process died
	stderr  string
	exit    int
	race    bool
	started int
	done    int
}

func parseOut(path string) (*workerOut, error) {
	wo := &workerOut{}
	f, err := os.Open(path)
	if err != nil {
		return wo, err
	}
	defer f.Close()
	sc := bufio.NewScanner(f)
	sc.Buffer(make([]byte, 1<<20), 1<<28)
	last := -1
	open := false
	for sc.Scan() {
		l := sc.Text()
		switch {
		case strings.HasPrefix(l, "START "):
			last, _ = strconv.Atoi(l[6:])
			open = true
			wo.started++
		case strings.HasPrefix(l, "DONE "):
			open = false
			wo.done++
		case strings.HasPrefix(l, "RESULT "):
			var r result
			if err := json.Unmarshal([]byte(l[7:]), &r); err == nil {
				wo.results = append(wo.results, r)
			}
			open = false
		case strings.HasPrefix(l, "AGG "):
			var a aggSummary
			if err := json.Unmarshal([]byte(l[4:]), &a); err == nil {
				wo.agg = &a
			}
		case strings.HasPrefix(l, "NONDET "):
			wo.nondet = append(wo.nondet, l)
		}
	}
	if open && wo.agg == nil {
		wo.crashed = &last
	}
	return wo, nil
}

func runWorker(bin string, envs []string, timeout time.Duration) (int, string) {
	cmd := exec.Command(bin, "-test.run", "^TestWorker$", "-test.timeout", "0")
	cmd.Env = append(env(), envs...)
	cmd.Dir = buildDir
	var stderr bytes.Buffer
	cmd.Stderr = &stderr
	cmd.Stdout = &stderr
	if err := cmd.Start(); err != nil {
		return 2, err.Error()
	}
	done := make(chan error, 1)
	go func() { done <- cmd.Wait() }()
	select {
	case err := <-done:
		s := stderr.String()
		if len(s) > 16000 {
			s = s[:6000] + "\n...\n" + s[len(s)-10000:]
		}
		if err != nil {
			if ee, ok := err.(*exec.ExitError); ok {
				return ee.ExitCode(), s
			}
			return 2, s
		}
		return 0, s
	case <-time.After(timeout):
		cmd.Process.Kill()
		<-done
		return 124, "driver timeout\n" + stderr.String()
	}
}

// replayOnce executes a plan file in a fresh process and returns the
// violation signatures it produced.
func replayOnce(planJSON []byte, race bool, tag string) ([]violation, json.RawMessage, int, string) {
	bin := filepath.Join(buildDir, "sim.test")
	if race {
		bin = filepath.Join(buildDir, "sim.race.test")
	}
	tmp := filepath.Join(buildDir, "out", "replay-"+tag+".json")
	out := filepath.Join(buildDir, "out", "replay-"+tag+".out")
	os.MkdirAll(filepath.Dir(tmp), 0o755)
	if err := os.WriteFile(tmp, planJSON, 0o644); err != nil {
		return nil, nil, 2, err.Error()
	}
	defer os.Remove(tmp)
	defer os.Remove(out)
	code, stderr := runWorker(bin, []string{"SIM_REPLAY=" + tmp, "SIM_OUT=" + out, "SIM_WATCHDOG_S=60", "GORACE=halt_on_error=0"}, 180*time.Second)
	wo, _ := parseOut(out)
	if wo.crashed != nil || (code != 0 && len(wo.results) == 0) {
		// the process died during the run: that is the violation
		first := firstLine(stderr)
		return []violation{{Class: "crash", Key: crashKey(stderr), Detail: first + "\n" + tail(stderr, 3000)}}, planJSON, code, stderr
	}
	if len(wo.results) == 0 {
		return nil, nil, code, stderr
	}
	return wo.results[0].Violations, wo.results[0].Plan, code, stderr
}

func firstLine(s string) string {
	for _, l := range strings.Split(s, "\n") {
		if strings.HasPrefix(l, "panic:") || strings.HasPrefix(l, "fatal error:") || strings.HasPrefix(l, "runtime:") || strings.HasPrefix(l, "WATCHDOG") {
			return l
		}
	}
	if i := strings.IndexByte(s, '\n'); i > 0 {
		return s[:i]
	}
	return s
}

func crashKey(stderr string) string {
	l := firstLine(stderr)
	for _, k := range []string{"stack overflow", "goroutine stack exceeds", "WATCHDOG", "out of memory", "index out of range", "slice bounds out of range", "nil pointer", "send on closed channel", "close of closed channel", "all goroutines are asleep"} {
		if strings.Contains(stderr, k) {
			return k
		}
	}
	if len(l) > 80 {
		l = l[:80]
	}
	return l
}

func tail(s string, n int) string {
	if len(s) > n {
		return s[len(s)-n:]
	}
	return s
}

func hasSig(vs []violation, sig string) bool {
	for _, v := range vs {
		if v.sig() == sig {
			return true
		}
	}
	return false
}

// known findings ------------------------------------------------------------

type finding struct {
	Property string `json:"property"`
	Key      string `json:"key"`    // violation signature, or a prefix of it ending in '*'
	Status   string `json:"status"` // known | fixed
	Commit   string `json:"commit,omitempty"`
	What     string `json:"what"`
}

func loadFindings() []finding {
	b, err := os.ReadFile(filepath.Join(verifDir, "known_findings.json"))
	if err != nil {
		return nil
	}
	var fs []finding
	if err := json.Unmarshal(b, &fs); err != nil {
		fmt.Fprintf(os.Stderr, "known_findings.json: %v\n", err)
		os.Exit(2)
	}
	return fs
}

func matchFinding(fs []finding, prop, sig string) *finding {
	for i := range fs {
		f := &fs[i]
		if f.Property != prop || f.Status != "known" {
			continue
		}
		if f.Key == sig || strings.HasSuffix(f.Key, "*") && strings.HasPrefix(sig, strings.TrimSuffix(f.Key, "*")) {
			return f
		}
	}
	return nil
}

// minimisation ----------------------------------------------------------------

func minimise(p *plan.Plan, sig string, race bool, budget int, deadline time.Time) *plan.Plan {
	best := p
	tries := 0
	try := func(q *plan.Plan) bool {
		if tries >= budget || time.Now().After(deadline) {
			return false
		}
		tries++
		q.Expect = sig
		vs, concrete, _, _ := replayOnce(q.JSON(), race, fmt.Sprintf("min-%d", os.Getpid()))
		if hasSig(vs, sig) {
			if concrete != nil {
				if c, err := plan.Parse(concrete); err == nil {
					c.Expect = sig
					c.Race = race
					best = c
					return true
				}
			}
			best = q
			return true
		}
		return false
	}
	for round := 0; round < 3; round++ {
		improved := false
		for _, c := range plan.Shrinks(best) {
			if tries >= budget || time.Now().After(deadline) {
				return best
			}
			if try(c) {
				improved = true
				break
			}
		}
		if !improved {
			// one full pass over the candidates of the current best found nothing
			cands := plan.Shrinks(best)
			any := false
			for _, c := range cands {
				if try(c) {
					any = true
					break
				}
			}
			if !any {
				break
			}
		}
	}
	return best
}

// evidence ----------------------------------------------------------------------

type evidence struct {
	PropertyID  string                 `json:"property_id"`
	Tier        string                 `json:"tier"`
	Seed        int64                  `json:"seed"`
	Level       string                 `json:"level"`
	Coverage    map[string]interface{} `json:"coverage"`
	Assumptions []string               `json:"assumptions"`
	WallS       float64                `json:"wall_s"`
	Violations  int                    `json:"violations"`
}

func main() {
	if len(os.Args) < 2 {
		fmt.Fprintln(os.Stderr, "usage: driver check <PROP> <quick|thorough> | replay <file> | selftest")
		os.Exit(2)
	}
	if err := setupPaths(); err != nil {
		fmt.Fprintln(os.Stderr, err)
		os.Exit(2)
	}
	switch os.Args[1] {
	case "check":
		if len(os.Args) < 4 {
			fmt.Fprintln(os.Stderr, "usage: driver check <PROP> <quick|thorough>")
			os.Exit(2)
		}
		os.Exit(check(os.Args[2], os.Args[3]))
	case "replay":
		os.Exit(replayCmd(os.Args[2]))
	case "selftest":
		os.Exit(selftest(os.Args[2:]))
	default:
		fmt.Fprintln(os.Stderr, "unknown command")
		os.Exit(2)
	}
}

func seedFromEnv() uint64 {
	if v := os.Getenv("VERIF_SEED"); v != "" {
		if n, err := strconv.ParseInt(v, 10, 64); err == nil {
			return uint64(n)
		}
		if n, err := strconv.ParseUint(v, 10, 64); err == nil {
			return n
		}
	}
	return 20261004
}

func replayCmd(path string) int {
	b, err := os.ReadFile(path)
	if err != nil {
		fmt.Fprintln(os.Stderr, err)
		return 2
	}
	p, err := plan.Parse(b)
	if err != nil {
		fmt.Fprintln(os.Stderr, err)
		return 2
	}
	if _, err := build(false); err != nil {
		fmt.Fprintln(os.Stderr, err)
		return 2
	}
	if p.Race {
		if _, err := build(true); err != nil {
			fmt.Fprintln(os.Stderr, err)
			return 2
		}
	}
	vs, _, code, stderr := replayOnce(b, p.Race, "cmd")
	fmt.Printf("replay %s: expect %q\n", path, p.Expect)
	for _, v := range vs {
		fmt.Printf("  got: %s\n       %s\n", v.sig(), strings.ReplaceAll(v.Detail, "\n", "\n       "))
	}
	if len(vs) == 0 {
		fmt.Printf("  no violation (exit code of the run %d)\n", code)
		if code != 0 {
			fmt.Println(tail(stderr, 2000))
		}
		return 0
	}
	if p.Race && p.Expect == "race" {
		fmt.Println(raceLocations(stderr))
	}
	if p.Expect == "" || hasSig(vs, p.Expect) {
		fmt.Printf("VIOLATION property=%s replay=%s\n", p.Prop, path)
		return 1
	}
	fmt.Printf("VIOLATION property=%s replay=%s (different signature)\n", p.Prop, path)
	return 1
}

// raceLocations extracts the library source locations of race reports.
func raceLocations(stderr string) string {
	var locs []string
	seen := map[string]bool{}
	for _, l := range strings.Split(stderr, "\n") {
		l = strings.TrimSpace(l)
		if strings.HasPrefix(l, "/repo/") {
			if i := strings.IndexByte(l, ' '); i > 0 {
				l = l[:i]
			}
			if !seen[l] {
				seen[l] = true
				locs = append(locs, l)
			}
		}
	}
	if len(locs) > 12 {
		locs = locs[:12]
	}
	return "race report locations in library code: " + strings.Join(locs, ", ")
}

func check(prop, tier string) int {
	cfg := props[prop]
	if cfg == nil {
		fmt.Fprintf(os.Stderr, "unknown or unclaimed property %s\n", prop)
		return 2
	}
	tc := cfg.Quick
	if tier == "thorough" {
		tc = cfg.Thorough
	} else if tier != "quick" {
		fmt.Fprintln(os.Stderr, "tier must be quick or thorough")
		return 2
	}
	if v := os.Getenv("VERIF_RUNS"); v != "" {
		if n, err := strconv.Atoi(v); err == nil {
			tc.Runs = n
		}
	}
	seed := seedFromEnv()
	start := time.Now()
	fmt.Printf("check %s tier=%s VERIF_SEED=%d runs=%d\n", prop, tier, int64(seed), tc.Runs)
	bin, err := build(false)
	if err != nil {
		fmt.Fprintln(os.Stderr, err)
		return 2
	}
	raceBin := ""
	if tc.Race > 0 {
		raceBin, err = build(true)
		if err != nil {
			fmt.Fprintln(os.Stderr, err)
			return 2
		}
	}
	nw := 16
	if v := os.Getenv("VERIF_WORKERS"); v != "" {
		if n, err := strconv.Atoi(v); err == nil && n > 0 {
			nw = n
		}
	}
	outDir := filepath.Join(buildDir, "out", prop+"-"+tier)
	os.RemoveAll(outDir)
	os.MkdirAll(outDir, 0o755)
	outs := make([]*workerOut, nw)
	var wg, plainWG sync.WaitGroup
	stopFile := filepath.Join(outDir, "plain-workers-done")
	nPlain := nw - tc.Race
	// Race-detector workers are several times slower. Where races are the
	// point (C08, C14, C17) and in the quick tier they run their full share;
	// elsewhere in the thorough tier they are a bonus and stop once the plain
	// workers are done.
	earlyStop := tier == "thorough" && prop != "C08" && prop != "C14" && prop != "C17"
	if nPlain > 0 && tc.Race > 0 && earlyStop {
		plainWG.Add(nPlain)
		go func() {
			plainWG.Wait()
			os.WriteFile(stopFile, []byte("done\n"), 0o644)
		}()
	}
	for i := 0; i < nw; i++ {
		wg.Add(1)
		go func(i int) {
			defer wg.Done()
			b := bin
			isRace := false
			// race workers take the highest slots
			if i >= nw-tc.Race {
				b = raceBin
				isRace = true
			} else if nPlain > 0 && tc.Race > 0 && earlyStop {
				defer plainWG.Done()
			}
			outp := filepath.Join(outDir, fmt.Sprintf("w%02d.out", i))
			hp := filepath.Join(outDir, fmt.Sprintf("w%02d.hashes", i))
			envs := []string{
				"SIM_PROP=" + prop, "SIM_TIER=" + tier, fmt.Sprintf("SIM_SEED=%d", seed),
				fmt.Sprintf("SIM_FROM=%d", i), fmt.Sprintf("SIM_TO=%d", tc.Runs), fmt.Sprintf("SIM_STRIDE=%d", nw),
				"SIM_OUT=" + outp, "SIM_HASHES=" + hp, fmt.Sprintf("SIM_BUDGET_MS=%d", tc.BudgetMS),
				"GORACE=halt_on_error=0 log_path=" + filepath.Join(outDir, fmt.Sprintf("w%02d.race", i)),
			}
			if isRace && nPlain > 0 && earlyStop {
				envs = append(envs, "SIM_STOPFILE="+stopFile)
			}
			code, stderr := runWorker(b, envs, time.Duration(tc.BudgetMS)*time.Millisecond+300*time.Second)
			wo, _ := parseOut(outp)
			wo.exit, wo.stderr, wo.race = code, stderr, isRace
			for k := range wo.results {
				wo.results[k].race = isRace
			}
			outs[i] = wo
		}(i)
	}
	wg.Wait()

	// aggregate
	total := aggSummary{Probes: map[string]int64{}, Kinds: map[string]int{}}
	var allResults []result
	harness := 0
	var crashes []result
	raceRuns := 0
	for i, wo := range outs {
		if wo.agg != nil {
			total.Runs += wo.agg.Runs
			total.Execs += wo.agg.Execs
			total.Steps += wo.agg.Steps
			for k, v := range wo.agg.Probes {
				total.Probes[k] += v
			}
			for k, v := range wo.agg.Kinds {
				total.Kinds[k] += v
			}
			if len(total.Samples) < 3 {
				total.Samples = append(total.Samples, wo.agg.Samples...)
			}
			if wo.race {
				raceRuns += wo.agg.Runs
			}
		}
		allResults = append(allResults, wo.results...)
		if len(wo.nondet) > 0 {
			fmt.Fprintf(os.Stderr, "HARNESS: worker %d reports nondeterministic re-execution: %s\n", i, wo.nondet[0])
			harness++
		}
		if wo.crashed != nil && !strings.Contains(wo.stderr, "pierrec/lz4/v4") && !strings.Contains(wo.stderr, "WATCHDOG") && !strings.Contains(wo.stderr, "stack overflow") && !strings.Contains(wo.stderr, "goroutine stack exceeds") {
			// a panic with no frame of the library in its trace is a bug of
			// the harness itself: trouble, never a verdict
			fmt.Fprintf(os.Stderr, "HARNESS: worker %d died in run %d with no library frame in the trace:\n%s\n", i, *wo.crashed, tail(wo.stderr, 1500))
			harness++
		} else if wo.crashed != nil {
			// The process died during run *crashed: the run's plan is the replay.
			p := plan.Gen(prop, tier, seed, *wo.crashed)
			crashes = append(crashes, result{Index: *wo.crashed, Plan: p.JSON(), race: wo.race,
				Violations: []violation{{Class: "crash", Key: crashKey(wo.stderr), Detail: firstLine(wo.stderr) + "\n" + tail(wo.stderr, 3000)}}})
		} else if wo.exit != 0 && wo.agg == nil {
			fmt.Fprintf(os.Stderr, "HARNESS: worker %d exited with %d and no summary:\n%s\n", i, wo.exit, tail(wo.stderr, 2000))
			harness++
		}
	}
	allResults = append(allResults, crashes...)
	sort.Slice(allResults, func(a, b int) bool { return allResults[a].Index < allResults[b].Index })

	// distinct counts from the hash files
	traces, states, plans := map[uint64]struct{}{}, map[uint64]struct{}{}, map[uint64]struct{}{}
	files, _ := filepath.Glob(filepath.Join(outDir, "*.hashes"))
	for _, f := range files {
		b, err := os.ReadFile(f)
		if err != nil {
			continue
		}
		for o := 0; o+9 <= len(b); o += 9 {
			h := binary.LittleEndian.Uint64(b[o+1:])
			switch b[o] {
			case 'T':
				traces[h] = struct{}{}
			case 'S':
				states[h] = struct{}{}
			case 'P':
				plans[h] = struct{}{}
			}
		}
		os.Remove(f)
	}

	// group violations by signature
	findings := loadFindings()
	type group struct {
		sig   string
		first result
		count int
	}
	groups := map[string]*group{}
	var order []string
	for _, r := range allResults {
		if len(r.Violations) == 0 {
			continue
		}
		s := r.Violations[0].sig()
		g := groups[s]
		if g == nil {
			g = &group{sig: s, first: r}
			groups[s] = g
			order = append(order, s)
		} else if len(r.Plan) < len(g.first.Plan) {
			g.first = r
		}
		g.count++
	}
	exit := 0
	nviol := 0
	os.MkdirAll(filepath.Join(outRoot, "replays"), 0o755)
	minDeadline := time.Now().Add(90 * time.Second)
	if tier == "thorough" {
		minDeadline = time.Now().Add(10 * time.Minute)
	}
	for gi, s := range order {
		g := groups[s]
		if f := matchFinding(findings, prop, s); f != nil {
			fmt.Printf("KNOWN-FINDING: property=%s %s [%s; %d occurrence(s) this run]\n", prop, f.What, s, g.count)
			continue
		}
		nviol += g.count
		p, err := plan.Parse(g.first.Plan)
		if err != nil {
			fmt.Fprintf(os.Stderr, "HARNESS: cannot parse failing plan: %v\n", err)
			harness++
			continue
		}
		p.Expect = s
		race := g.first.race && g.first.Violations[0].Class == "race"
		p.Race = race
		final := p
		reproduced := "not re-run"
		if gi < 4 {
			// confirm in a fresh process, then minimise
			if raceBin == "" && race {
				raceBin, _ = build(true)
			}
			vs, concrete, _, _ := replayOnce(p.JSON(), race, "confirm")
			if hasSig(vs, s) {
				reproduced = "reproduced in a fresh process"
				if concrete != nil {
					if c, err := plan.Parse(concrete); err == nil {
						c.Expect, c.Race = s, race
						final = c
					}
				}
				final = minimise(final, s, race, 120, minDeadline)
			} else if g.first.Violations[0].Class == "crash" {
				// a worker process that died (watchdog, signal, out of memory)
				// during a run whose plan does not die again in a fresh
				// process is trouble of the harness or the machine, never a
				// verdict about the property
				fmt.Fprintf(os.Stderr, "HARNESS: worker death (%s) in run %d did not reproduce\n", g.first.Violations[0].Key, g.first.Index)
				harness++
				nviol -= g.count
				continue
			} else {
				reproduced = "NOT reproduced in a fresh process (pool pass-through or race-detector history?)"
			}
		}
		name := fmt.Sprintf("%s-%s-%016x.json", prop, sanitize(g.first.Violations[0].Class), plan.HashString(s))
		path := filepath.Join(outRoot, "replays", name)
		final.Note = fmt.Sprintf("found by check %s %s VERIF_SEED=%d run index %d; %s", prop, tier, int64(seed), g.first.Index, reproduced)
		pretty, _ := json.MarshalIndent(final, "", " ")
		os.WriteFile(path, pretty, 0o644)
		fmt.Printf("violation: %s (%d occurrence(s)); first: run %d: %s; %s\n", s, g.count, g.first.Index, oneLine(g.first.Violations[0].Detail), reproduced)
		fmt.Printf("VIOLATION property=%s replay=%s\n", prop, path)
		exit = 1
	}

	wall := time.Since(start).Seconds()
	// probes stuck at zero that this property cares about
	var zero []string
	for _, pn := range expectedProbes[prop] {
		if total.Probes[pn] == 0 {
			zero = append(zero, pn)
		}
	}
	cov := map[string]interface{}{
		"evaluations":              total.Execs,
		"distinct_nontrivial":      len(plans),
		"rule":                     cfg.Rule,
		"samples":                  total.Samples,
		"runs":                     total.Runs,
		"runs_per_hour":            int(float64(total.Runs) / wall * 3600),
		"executions_per_hour":      int(float64(total.Execs) / wall * 3600),
		"simulated_time_steps":     total.Steps,
		"distinct_interleavings":   len(traces),
		"distinct_pipeline_states": len(states),
		"interleaving_measure":     "distinct hashes of the (goroutine kind @ hook site) choice sequence of a run; pipeline state = multiset of (kind @ site) over live goroutines at a step",
		"faults_fired_and_probes":  nonZero(total.Probes),
		"probes_stuck_at_zero":     zero,
		"scenario_kinds":           total.Kinds,
		"race_detector_runs":       raceRuns,
		"workers":                  nw,
		"real_vs_stub":             "real: lz4 Writer/Reader/CompressingReader, lz4stream, lz4block (asm decoder), xxh32, goroutines, channels, mutex, Go runtime, race detector; stub: io endpoints (SimDisk), block-buffer pools (adversarial, except pass-through runs), scheduling choice at hooked points, OnBlockDone handlers, GOMAXPROCS",
		"exhaustive":               false,
	}
	ev := evidence{PropertyID: prop, Tier: tier, Seed: int64(seed), Level: cfg.Level, Coverage: cov, Assumptions: cfg.Assume, WallS: wall, Violations: nviol}
	if total.Execs > 0 && len(plans) >= 2 {
		os.MkdirAll(filepath.Join(outRoot, "evidence"), 0o755)
		b, _ := json.MarshalIndent(ev, "", " ")
		os.WriteFile(filepath.Join(outRoot, "evidence", prop+".json"), b, 0o644)
		if tier == "thorough" {
			os.MkdirAll(filepath.Join(outRoot, "evidence", "thorough"), 0o755)
			os.WriteFile(filepath.Join(outRoot, "evidence", "thorough", fmt.Sprintf("%s.seed%d.json", prop, int64(seed))), b, 0o644)
		}
	} else {
		fmt.Fprintf(os.Stderr, "HARNESS: nothing was executed (execs=%d plans=%d)\n", total.Execs, len(plans))
		harness++
	}
	fmt.Printf("%s %s: runs=%d executions=%d steps=%d distinct_plans=%d interleavings=%d states=%d race_runs=%d wall=%.1fs violations=%d\n",
		prop, tier, total.Runs, total.Execs, total.Steps, len(plans), len(traces), len(states), raceRuns, wall, nviol)
	if len(zero) > 0 {
		fmt.Printf("note: probes stuck at zero: %v\n", zero)
	}
	if total.Runs < tc.Runs*9/10 && exit == 0 && tc.Race == 0 {
		fmt.Fprintf(os.Stderr, "note: only %d of %d planned runs were executed within the wall-clock budget\n", total.Runs, tc.Runs)
	}
	if exit == 0 && harness > 0 {
		return 2
	}
	return exit
}

var expectedProbes = map[string][]string{
	"C02": {"lib.goroutines", "decode.direct", "decode.buffered", "flush.barrier.checked", "legacy", "src.zero", "src.eofdata"},
	"C05": {"corrupt.flip", "corrupt.set", "corrupt.struct", "accepted.equal", "rejected", "header.anomaly"},
	"C06": {"cut", "legacy", "skippable.skipped"},
	"C07": {"corrupt.flip", "corrupt.struct", "legacy", "skippable.skipped", "rejected"},
	"C08": {"lib.goroutines", "pool.reissue", "sink.fail", "src.err0", "corrupt.flip", "reader.abandoned", "queue.full.at.enqueue", "sentinel.behind.pending", "handler.after.return"},
	"C09": {"raw.block.emitted", "legacy", "flush.barrier.checked"},
	"C14": {"lib.goroutines", "pool.reissue"},
	"C15": {"sink.fail", "sink.short", "sink.forever", "src.err0", "src.errn", "src.zero", "src.eofdata"},
	"C16": {"fallback.sequential", "offset.65535", "cross.block.match", "decode.direct", "decode.buffered"},
	"C17": {"flush.barrier.checked", "reset.equiv.checked", "misuse.call", "lib.goroutines"},
	"C18": {"cr.overflow.gt", "cr.overflow.lt", "cr.zero.len.read", "src.err0", "src.errn", "src.eofdata"},
}

func nonZero(m map[string]int64) map[string]int64 {
	o := map[string]int64{}
	for k, v := range m {
		if v != 0 {
			o[k] = v
		}
	}
	return o
}

func sanitize(s string) string {
	var b strings.Builder
	for _, c := range s {
		if c >= 'a' && c <= 'z' || c >= 'A' && c <= 'Z' || c >= '0' && c <= '9' || c == '-' {
			b.WriteRune(c)
		} else {
			b.WriteByte('_')
		}
	}
	return b.String()
}

func oneLine(s string) string {
	if i := strings.IndexByte(s, '\n'); i >= 0 {
		s = s[:i]
	}
	if len(s) > 300 {
		s = s[:300]
	}
	return s
}

func selftest(args []string) int {
	fmt.Println("selftest: see scripts/selftest.sh")
	return 0
}
