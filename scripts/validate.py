#!/opt/veriftools/pyvenv/bin/python
# validates MANIFEST.json and every evidence file against the schemas
import json,glob,sys,jsonschema
m=json.load(open('/verif/MANIFEST.json'))
jsonschema.validate(m,json.load(open('/root/.vp/MANIFEST.schema.json')))
props=[json.loads(l)['id'] for l in open('/verif/properties.jsonl')]
claimed=[c['property_id'] for c in m['checks']]
na=[n['property_id'] for n in m.get('not_applicable',[])]
assert sorted(claimed+na)==sorted(props),(sorted(claimed+na),props)
es=json.load(open('/root/.vp/EVIDENCE.schema.json'))
for c in m['checks']:
    try:
        ev=json.load(open(c['evidence_file']))
        jsonschema.validate(ev,es)
        assert ev['level']==c['level_claimed']['category']
        print(c['property_id'],'evidence ok',ev['tier'],ev['coverage']['evaluations'],ev['coverage']['distinct_nontrivial'],'%.0fs'%ev['wall_s'])
    except FileNotFoundError:
        print(c['property_id'],'NO EVIDENCE FILE')
print('manifest ok; claimed',claimed)
