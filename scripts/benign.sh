#!/bin/bash
# False-alarm run: for every benign/<id>/patch.diff (behaviour-preserving
# changes written by independent sub-agents) apply the patch to a scratch
# worktree of /repo, confirm that the repository's suite passes there, and run
# the quick tier of EVERY claimed check against that tree. Any VIOLATION (or a
# harness failure) is a false alarm to investigate. usage: scripts/benign.sh [id...]
set -u
HERE=$(cd "$(dirname "$(readlink -f "$0")")/.." && pwd)
cd "$HERE"
ids=${*:-$(ls benign)}
mkdir -p "$HERE/.build/benign"
for id in $ids; do
  d=$HERE/benign/$id; [ -f $d/patch.diff ] || continue
  wt=/tmp/ben-$id; out=/tmp/ben-$id.out
  git -C /repo worktree remove --force $wt >/dev/null 2>&1; rm -rf $wt $out
  git -C /repo worktree add -q --detach $wt HEAD || { echo "$id worktree failed"; continue; }
  if ! git -C $wt apply $d/patch.diff 2>/dev/null; then echo "$id PATCH-DOES-NOT-APPLY"; git -C /repo worktree remove --force $wt; continue; fi
  if (cd $wt && GOFLAGS=-mod=mod GOPROXY=off GOMAXPROCS=8 go test -vet=off -count=1 ./... 2>&1 | grep -v "TestReader\b\|TestReaderLegacy\|Sawyer_linked\|Sawyer_long\|vmlinux" | grep -q "^--- FAIL\|^panic\|build failed"); then suite=FAILS-SUITE; else suite=passes-suite; fi
  res=""
  for P in ${BENIGN_CHECKS:-C02 C05 C06 C07 C08 C09 C14 C15 C16 C17 C18}; do
    VERIF_REPO=$wt VERIF_SCRATCH=$out "$HERE/check" $P quick > "$HERE/.build/benign/$id.$P.log" 2>&1; rc=$?
    case $rc in 0) res="$res $P=ok";; 1) res="$res $P=ALARM($(grep '^violation' "$HERE/.build/benign/$id.$P.log" | head -1 | cut -c1-120))";; *) res="$res $P=harness-rc$rc";; esac
  done
  echo "$id [$suite]$res"
  git -C /repo worktree remove --force $wt; rm -rf $out
done
