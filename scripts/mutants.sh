#!/bin/bash
# Sensitivity run: for every seeded/<id>/patch.diff (or the ids given), apply
# the patch to a scratch worktree of /repo, check that the repository's own
# test suite still passes there (the mutant must be invisible to it), run the
# quick checks named in meta.json against that worktree, and report whether a
# VIOLATION was raised. Nothing in /repo, /verif/evidence or /verif/replays is
# touched. usage: scripts/mutants.sh [id...]
set -u
HERE=$(cd "$(dirname "$(readlink -f "$0")")/.." && pwd)
cd "$HERE"
ids=${*:-$(ls seeded)}
mkdir -p "$HERE/.build/mutants"
for id in $ids; do
  d=$HERE/seeded/$id; [ -f $d/patch.diff ] || continue
  wt=/tmp/mut-$id; out=/tmp/mut-$id.out
  git -C /repo worktree remove --force $wt >/dev/null 2>&1; rm -rf $wt $out
  git -C /repo worktree add -q --detach $wt HEAD || { echo "$id worktree failed"; continue; }
  if ! git -C $wt apply $d/patch.diff 2>/dev/null; then echo "$id PATCH-DOES-NOT-APPLY"; git -C /repo worktree remove --force $wt; continue; fi
  suite=skipped
  if [ "${MUT_SUITE:-1}" = 1 ]; then
    if (cd $wt && GOFLAGS=-mod=mod GOPROXY=off GOMAXPROCS=8 go test -vet=off -count=1 ./... 2>&1 | grep -v "TestReader\b\|TestReaderLegacy\|Sawyer_linked\|Sawyer_long\|vmlinux" | grep -q "^--- FAIL\|^panic\|build failed"); then suite=FAILS-SUITE; else suite=passes-suite; fi
  fi
  res=""
  checks=$(python3 -c "import json;print(' '.join(json.load(open('$d/meta.json'))['checks']))")
  [ "${MUT_PRIMARY:-0}" = 1 ] && checks=$(echo $checks | cut -d' ' -f1)
  for P in $checks; do
    VERIF_REPO=$wt VERIF_SCRATCH=$out "$HERE/check" $P quick > "$HERE/.build/mutants/$id.$P.log" 2>&1; rc=$?
    case $rc in 1) res="$res $P=CAUGHT($(grep -c '^VIOLATION' "$HERE/.build/mutants/$id.$P.log"))";; 0) res="$res $P=missed";; *) res="$res $P=harness-rc$rc";; esac
  done
  echo "$id [$suite]$res"
  git -C /repo worktree remove --force $wt; rm -rf $out
done
