#!/bin/bash
# Determinism self-test of the simulator: every property's first N run indices
# are executed in separate worker processes under GOMAXPROCS 1, 4 and 16, twice
# each (plain build; C08/C14/C17 also with the race build), and the per-run
# (trace hash, steps, executions, violations) records must be identical.
# usage: scripts/selftest.sh [N] [PROP...]
set -u
N=${1:-300}; shift || true
PROPS=${*:-C02 C05 C06 C07 C08 C09 C14 C15 C16 C17 C18}
cd /verif/sim || exit 2
export GOFLAGS=-mod=mod GOPROXY=off GOSUMDB=off GOTOOLCHAIN=local
B=/verif/.build; mkdir -p $B/selftest
go1.26.8 test -c -tags verif -o $B/sim.test ./engine/ || exit 2
go1.26.8 test -c -race -tags verif -o $B/sim.race.test ./engine/ || exit 2
rc=0; procs=0
for P in $PROPS; do
  n=$N; [ $P = C06 ] && n=$((N/10)); [ $P = C15 ] && n=$((N/4))
  pids=()
  for gm in 1 4 16; do for rep in a b; do
    for bin in sim.test sim.race.test; do
      [ $bin = sim.race.test ] && case $P in C08|C14|C17) ;; *) continue;; esac
      [ $bin = sim.race.test ] && [ $rep = b ] && continue
      GOMAXPROCS=$gm SIM_PROP=$P SIM_TIER=quick SIM_SEED=777 SIM_FROM=0 SIM_TO=$n SIM_STRIDE=1 SIM_RECHECK=0 \
        SIM_OUT=$B/selftest/$P.$gm.$rep.$bin.out SIM_TRACELOG=$B/selftest/$P.$gm.$rep.$bin.trace \
        GORACE=halt_on_error=0 $B/$bin -test.run '^TestWorker$' -test.timeout 0 >/dev/null 2>&1 &
      pids+=($!); procs=$((procs+1))
    done
  done; done
  wait "${pids[@]}" 2>/dev/null
  ref=$B/selftest/$P.1.a.sim.test.trace
  for f in $B/selftest/$P.*.trace; do
    # pass-through pool runs use the real sync.Pool: their schedule is still deterministic
    if ! cmp -s $ref $f; then echo "NONDETERMINISM: $P: $f differs from $ref"; diff $ref $f | head -5; rc=1; fi
  done
  echo "$P: $(wc -l < $ref) runs identical across $(ls $B/selftest/$P.*.trace | wc -l) processes"
done
echo "selftest: $procs processes, rc=$rc"
exit $rc
