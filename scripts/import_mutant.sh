#!/bin/bash
# scripts/import_mutant.sh <agent-dir> <k> <id> <property> [extra check ids...]
# Confirms a sub-agent's mutant in a scratch worktree (patch applies, the
# repository's suite still passes modulo the known baseline failures, the
# demonstration fails with the patch and passes without) and stores it as
# seeded/<id>/ {patch.diff, demo_test.go.txt, NOTES.md, meta.json}.
set -u
A=$1; K=$2; ID=$3; PROP=$4; shift 4; CHECKS="$PROP $*"
export GOFLAGS=-mod=mod GOPROXY=off GOSUMDB=off GOMAXPROCS=8
wt=/tmp/imp-$ID; git -C /repo worktree remove --force $wt >/dev/null 2>&1; rm -rf $wt
git -C /repo worktree add -q --detach $wt HEAD || exit 2
cp $A/demo${K}_test.go.txt $wt/zz_demo_test.go
run=$(grep -o 'TestMutant[0-9A-Za-z_]*' $wt/zz_demo_test.go | head -1)
race=""; grep -qi 'go test.*-race' $wt/zz_demo_test.go && race="-race"
clean=$(cd $wt && timeout 300 go test -vet=off $race -run "$run" -count=1 . 2>&1 | tail -1)
git -C $wt apply $A/patch$K.diff || { echo "$ID: patch does not apply"; git -C /repo worktree remove --force $wt; exit 1; }
mut=$(cd $wt && timeout 300 go test -vet=off $race -run "$run" -count=1 . 2>&1 | tail -1)
rm $wt/zz_demo_test.go
suite=$(cd $wt && go test -vet=off -count=1 ./... 2>&1 | grep "^--- FAIL\|^    --- FAIL\|^panic\|build failed" | grep -v "TestReader \|TestReaderLegacy \|Sawyer_linked\|Sawyer_long\|vmlinux_LZ4_19377" | head -3)
git -C /repo worktree remove --force $wt
echo "$ID: clean=[$clean] mutant=[$mut] suite-extra-failures=[$suite]"
case "$clean" in ok*) ;; *) echo "$ID: demo does not pass on the clean tree"; exit 1;; esac
case "$mut" in ok*) echo "$ID: demo does not fail with the patch"; exit 1;; esac
[ -n "$suite" ] && { echo "$ID: the patch breaks the existing suite"; exit 1; }
d=/verif/seeded/$ID; mkdir -p $d
cp $A/patch$K.diff $d/patch.diff; cp $A/demo${K}_test.go.txt $d/demo_test.go.txt
cp $A/MUTANTS.md $d/NOTES.md
python3 - "$ID" "$PROP" "$K" "$A" "$CHECKS" "$race" <<'PY'
import json,sys
id,prop,k,a,checks,race=sys.argv[1:7]
json.dump({"id":id,"kind":"sub-agent seeded change","breaks":prop,"checks":checks.split(),
 "origin":"%s mutant %s (independent sub-agent given only the property record)"%(a,k),
 "needs":"see NOTES.md, section for mutant %s"%k,
 "ran":"scripts/import_mutant.sh: patch applies to HEAD; repository suite passes modulo the 8 known baseline failures; demo (go test %s -run TestMutant%s) passes on the clean tree and fails with the patch"%(race,k)},
 open('/verif/seeded/%s/meta.json'%id,'w'),indent=1)
PY
echo "$ID: imported"
