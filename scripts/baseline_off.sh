#!/bin/bash
# Runs the repository's own test suite with the verif guard OFF and compares
# the set of passing tests with the stable baseline in /root/.vp/BASELINE.json.
# GOMAXPROCS=8 because the baseline test names embed ConcurrencyOption(8).
export GOFLAGS=-mod=mod GOPROXY=off GOSUMDB=off GOMAXPROCS=8
out=$(mktemp)
for m in . ./cmd/lz4c ./fuzz; do
  (cd /repo/$m && go test -json -vet=off -count=1 -timeout 25m ./... 2>/dev/null)
done > "$out"
python3 - "$out" <<'PY'
import json,sys
passed=set()
for l in open(sys.argv[1]):
    try: e=json.loads(l)
    except Exception: continue
    if e.get('Action')=='pass' and e.get('Test'):
        passed.add(e['Package']+'::'+e['Test'])
base=json.load(open('/root/.vp/BASELINE.json'))
want=set(base['stable_pass'])
missing=sorted(want-passed)
print('baseline stable_pass=%d passed_now=%d missing=%d'%(len(want),len(passed&want),len(missing)))
for m in missing: print('MISSING',m)
sys.exit(1 if missing else 0)
PY
rc=$?
rm -f "$out"
exit $rc
