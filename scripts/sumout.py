#!/usr/bin/env python3
# summarise a worker output file: violation signatures and aggregate
import json,sys,collections
sig=collections.Counter(); first={}; agg=None; nondet=0
for l in open(sys.argv[1]):
    if l.startswith('RESULT '):
        r=json.loads(l[7:])
        for v in r['violations'][:1]:
            k=v['class']+' | '+v['key']
            sig[k]+=1
            if k not in first or len(json.dumps(r['plan']))<len(json.dumps(first[k]['plan'])): first[k]=r
    elif l.startswith('AGG '): agg=json.loads(l[4:])
    elif l.startswith('NONDET'): nondet+=1
for k,c in sig.most_common(): print(c,k,'idx',first[k]['index'],'planlen',len(json.dumps(first[k]['plan'])))
if agg:
    print('runs',agg['runs'],'execs',agg['execs'],'steps',agg['steps'],'traces',agg['traces'],'states',agg['states'],'plans',agg['plans'],'nondet',nondet)
    print({k:v for k,v in agg['probes'].items() if v})
if len(sys.argv)>2: json.dump(first,open(sys.argv[2],'w'))
