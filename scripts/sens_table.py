#!/usr/bin/env python3
# Rebuilds the sensitivity table of DESIGN.md section 13 and seeded/*/meta.json
# "result" fields from the logs of scripts/mutants.sh kept in seeded-logs/.
import json,re,os,glob
first={}; last={}
for f in sorted(glob.glob('/verif/seeded-logs/*.log')):
    for l in open(f):
        m=re.match(r'(\S+) \[(\S+)\] (.*)',l.strip())
        if not m: continue
        id,suite,rest=m.groups()
        cur={}
        for tok in rest.split():
            p,v=tok.split('=')
            cur[p]=v
        first.setdefault(id,dict(cur))
        last.setdefault(id,{}).update(cur)
rows=[]; n=0; caught_primary=0; first_primary=0
for id in sorted(os.listdir('/verif/seeded')):
    d='/verif/seeded/%s'%id
    if not os.path.isdir(d): continue
    meta=json.load(open(d+'/meta.json'))
    if id.startswith('R'):
        what=meta['origin'].split(' ',1)[1].replace('fix: ','revert of fix: ')
    else:
        notes=open(d+'/NOTES.md').read()
        k=re.search(r'(\d)$',id).group(1)
        heads=[l.strip('# ').strip() for l in notes.splitlines() if l.startswith('#') and re.search(r'[Mm]utant\s*%s\b'%k,l)]
        what=heads[0] if heads else 'see NOTES.md'
        what=re.sub(r'\s*\(?`?patch\d\.diff`?[^)]*\)?','',what)
    r=last.get(id,{}); f0=first.get(id,{})
    prim=meta['breaks']
    caught=sorted(p for p,v in r.items() if v.startswith('CAUGHT'))
    missed=sorted(p for p,v in r.items() if v=='missed')
    f_ok=f0.get(prim,'').startswith('CAUGHT')
    n+=1; caught_primary+= prim in caught; first_primary+= f_ok
    rows.append('| %s | %s | %s | %s | %s | %s |'%(id,prim,what[:140].replace('|','/'),', '.join(caught) or '-',', '.join(missed) or '-','yes' if f_ok else 'no'))
    meta['result']={'caught_by':caught,'silent':missed,'primary_check_caught_on_first_try':f_ok}
    json.dump(meta,open(d+'/meta.json','w'),indent=1)
print('%d seeded changes; caught by the check of the property they break: %d (on the first try, before any strengthening: %d)'%(n,caught_primary,first_primary))
open('/verif/seeded/RESULTS.md','w').write('| id | breaks | change | caught by (quick tier) | also tried, silent | primary check caught it on the first try |\n|---|---|---|---|---|---|\n'+'\n'.join(rows)+'\n')
